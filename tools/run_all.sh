#!/bin/bash
# tools/run_all.sh [tier] [ids...] : runs the claimed checks one after the other, prints exit code, wall time and alarm lines
cd "$(dirname "$(readlink -f "$0")")/.."; tier=${1:-quick}; shift
ids="$@"; [ -z "$ids" ] && ids=$(python3 -c "import json;print(' '.join(c['property_id'] for c in json.load(open('MANIFEST.json'))['checks']))")
for c in $ids; do s=$(date +%s); out=$(./check $c --tier $tier 2>&1); rc=$?; e=$(date +%s)
  echo "$c exit=$rc wall=$((e-s))s $(echo "$out" | grep -c "^KNOWN-FINDING:") known"; echo "$out" | grep -E "^VIOLATION|HARNESS-ERROR" | cut -c1-250 | head -5; done
