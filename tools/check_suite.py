#!/usr/bin/env python3
"""tools/check_suite.py <junit.xml>: every BASELINE stable_pass id must pass."""
import json, sys, xml.etree.ElementTree as ET
base = set(json.load(open("/root/.vp/BASELINE.json"))["stable_pass"])
res = {}
for tc in ET.parse(sys.argv[1]).getroot().iter("testcase"):
    tid = tc.get("classname") + "::" + tc.get("name")
    res[tid] = "pass" if not any(c.tag in ("failure", "error", "skipped") for c in tc) else "fail"
missing = [t for t in base if t not in res]
failed = [t for t in base if res.get(t) == "fail"]
newly = [t for t, r in res.items() if r == "pass" and t not in base]
print(f"baseline={len(base)} passed={sum(res.get(t)=='pass' for t in base)} failed={len(failed)} missing={len(missing)} newly_passing={len(newly)}")
for t in failed + missing: print("  BAD", t)
sys.exit(1 if failed or missing else 0)
