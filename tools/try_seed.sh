#!/bin/bash
# usage: tools/try_seed.sh <patch.diff> <demo.py|-> <Cxx> [Cyy ...]
# Applies the patch to a scratch worktree of /repo's HEAD, runs the demo there (must fail) and on /repo (must pass),
# runs the named checks against the worktree (VERIF_REPO), prints their verdicts, removes the worktree.
set -u
patch=$(readlink -f "$1"); demo=$2; shift 2
[ "$demo" != "-" ] && demo=$(readlink -f "$demo")
wt=/tmp/vwt-$$
git -C /repo worktree add -q --detach "$wt" HEAD || exit 2
trap 'git -C /repo worktree remove --force "$wt"; rm -rf /tmp/vev-$$' EXIT
if ! git -C "$wt" apply "$patch"; then echo "PATCH DOES NOT APPLY"; exit 3; fi
if [ "$demo" != "-" ]; then
  cp "$demo" "$wt/_seed_demo.py"; mkdir -p /tmp/vclean-$$; cp "$demo" /tmp/vclean-$$/_seed_demo.py
  (cd /tmp/vclean-$$ && PYTHONPATH=/repo /venv/bin/python _seed_demo.py >/dev/null 2>&1); echo "demo on clean tree: exit $?"; rm -rf /tmp/vclean-$$
  (cd "$wt" && /venv/bin/python _seed_demo.py >/dev/null 2>&1); echo "demo on patched tree: exit $?"
fi
cd /verif
for c in "$@"; do
  out=$(VERIF_REPO="$wt" VERIF_EVIDENCE_DIR=/tmp/vev-$$ ./check "$c" --tier "${TIER:-quick}" 2>&1); rc=$?
  echo "== $c exit=$rc"; echo "$out" | grep -E "VIOLATION|HARNESS|KNOWN" | cut -c1-260 | head -8
done
