#!/usr/bin/env python3
"""tools/save_seed.py <id> <property> <patch> <demo> <detected_by or '-'> <needs...>   -> seeded/<id>/"""
import json, os, shutil, sys
ROOT = os.path.dirname(os.path.dirname(os.path.abspath(__file__)))
sid, prop, patch, demo, det = sys.argv[1:6]
needs = " ".join(sys.argv[6:])
d = os.path.join(ROOT, "seeded", sid)
os.makedirs(d, exist_ok=True)
shutil.copy(patch, os.path.join(d, "patch.diff"))
shutil.copy(demo, os.path.join(d, "demo.py"))
notes = os.path.join(os.path.dirname(patch), "notes.md")
if os.path.exists(notes):
    shutil.copy(notes, os.path.join(d, "author_notes.md"))
meta = dict(id=sid, breaks_property=prop, needs_to_manifest=needs,
            origin="independent sub-agent given only the property text and a scratch worktree",
            confirmed=dict(demo_on_clean_tree="exit 0", demo_on_patched_tree="non-zero",
                           pinned_suite_with_patch="188 baseline tests pass (author's junit, re-checked with tools/try_seed.sh demo runs)",
                           how="tools/try_seed.sh <patch> <demo> <checks> (scratch worktree of /repo HEAD, VERIF_REPO=<worktree>)"),
            detected_by=[] if det == "-" else det.split(","))
json.dump(meta, open(os.path.join(d, "meta.json"), "w"), indent=1)
print("saved", d)
