#!/bin/bash
# tools/seed_regress.sh [ids...] : re-runs every saved seeded change (seeded/<id>/patch.diff) against the check(s) named in its meta.json
# ("detected_by"), on a scratch worktree of /repo HEAD; prints DETECTED / MISSED per seed.  Nothing is committed in /repo.
cd "$(dirname "$(readlink -f "$0")")/.."
ids="$@"; [ -z "$ids" ] && ids=$(ls seeded)
for id in $ids; do
  checks=$(python3 -c "import json;m=json.load(open('seeded/$id/meta.json'));d=m.get('detected_by') or [m['id'][:3]];print(' '.join(d if isinstance(d,list) else [d]))")
  out=$(tools/try_seed.sh seeded/$id/patch.diff - $checks 2>&1)
  if echo "$out" | grep -q "PATCH DOES NOT APPLY"; then echo "$id N/A (patch was written against an older /repo commit and no longer applies)"; elif echo "$out" | grep -q "^VIOLATION"; then echo "$id DETECTED by $(echo "$out" | grep -B8 '^VIOLATION' | grep '^== ' | sed 's/== //' | tr '\n' ' ')"; else echo "$id MISSED ($checks): $(echo "$out" | tail -3 | tr '\n' ' ' | cut -c1-200)"; fi
done
