# id -> (level, technique, text, note, design_ref)      (exec'd by gen_manifest.py)
NOT_YET = {}
CLAIMS["C07"] = (
    "exploration",
    "bounded exhaustive enumeration of inputs (full cartesian product) against a brute-force reference minimiser",
    "Every prox of every penalty class is executed (compiled code) on the full product hyper-parameters x admissible "
    "steps x an x-grid containing every closed-form threshold +-{0,1ulp,1e-9,1e-3}; its prox objective must not exceed "
    "a brute-force minimum, and it must be feasible and finite. Exhaustive within the stated finite alphabets.",
    "Trusted: the reference penalty values in mc/ref/pen.py (documented formulas, self-tested one-sided derivatives) and "
    "the brute-force minimiser, which is one-sided (can only under-detect). No claim outside the alphabets.",
    "DESIGN.md §4 C07")
CLAIMS["C08"] = (
    "exploration",
    "bounded exhaustive enumeration of (w, gradient) inputs against the reference regular subdifferential",
    "Every subdiff_distance (scalar, row, group; positivity on/off; zero weights) is evaluated on the full product of "
    "hyper-parameters x w in {0, kinks, kinks +-ulp, region interiors, infeasible} x gradients incl. the ends of the reference "
    "subdifferential +-ulp, with a permuted working set, and compared with the distance to the regular subdifferential of "
    "the documented value; plus prox-image stationarity, the converse for convex penalties, inf at positivity violations, "
    "and zero value of unpenalised features.",
    "Trusted: mc/ref/pen.py closed-form one-sided derivatives (self-tested). generalized_support is not judged (it is not "
    "part of the statement). No claim outside the alphabets. Added: the solvers' fixed-point scores (dist_fix_point_cd / _bcd / multitask _bcd) on every ordered working set vs the prox residual.",
    "DESIGN.md §4 C08")
CLAIMS["C06"] = (
    "exploration",
    "bounded exhaustive enumeration of (datafit, hyper, X, y, w) against reference losses and derivatives, dense vs CSC",
    "Every accessor of every datafit class (value, raw_grad, raw_hessian where exact, gradient_scalar(_sparse), gradient(_sparse), "
    "full_grad_sparse, gradient_g(_sparse), gradient_j(_sparse), intercept_update_step, initialize(_sparse) attributes) is "
    "compared with the documented loss and its hand-derived derivatives on all of T(2,2), T(3,2) orbit representatives (all "
    "729 in thorough), full-rank / zero-column / rescaled designs, all survival patterns of <=3 samples (n=4 in thorough), "
    "and a grid of coefficient vectors.",
    "Trusted: mc/ref/loss.py (documented formulas; derivatives self-tested numerically). Points with |Xw| > 30 (float64 "
    "overflow regime) are outside the alphabet. Cox/SqrtQuadratic raw_hessian are bounds and belong to C09. Added: accessor histories (engine H) - a live compiled datafit must answer every single-accessor probe like a fresh object after re-initialisation / other accessor calls; prox and prox_conjugate of the primal-dual datafits vs brute force and Moreau's identity.",
    "DESIGN.md §4 C06")
CLAIMS["C09"] = (
    "exploration",
    "bounded exhaustive enumeration of (datafit, hyper, X, y, power-method seed) against eigenvalue-based curvature bounds",
    "Coordinate, group and global constants of every datafit are recomputed as lambda_max(X_B' D X_B) (numpy eigvalsh, D the "
    "documented curvature sup) on all small ternary designs plus full-rank, zero-column, rescaled, duplicated/dependent-column "
    "designs and all group layouts; dense must be equal, power-method (CSC) values must lie in [(1-2e-2)L, L] for 5 seeds; "
    "Cox/SqrtQuadratic raw_hessian must dominate the true Hessian at every grid point.",
    "Trusted: documented curvature sups in mc/ref/loss.py, numpy eigvalsh. Cox.get_global_lipschitz only checked as a necessary "
    "condition at the sampled points.",
    "DESIGN.md §4 C09")
CLAIMS["C01"] = (
    "model_checking",
    "explicit exploration of solver stopping points: deviation-bounded enumeration of knob assignments (d<=2 quick, d<=3 thorough) and budget rectangles on the real compiled solvers, certificate recomputed by a reference model",
    "For 60+ compile domains (every CD/BCD/prox-Newton/Gram/L-BFGS solver x its datafits x penalty classes x dense/CSC) every "
    "knob assignment within 2 deviations of the defaults (tol, p0, strategy, intercept, acceleration, warm start, budget "
    "rectangle incl. 0 and the extrapolation periods) is executed on 8 designs x targets x 2 alphas; each execution is a "
    "stopping point of a real trajectory; whenever the solver claims stop_crit <= tol the first-order violation recomputed "
    "from (X, y, w) alone must be <= tol. Plus the full product of 31 zero-weight patterns x 3^5 warm starts x p0 x "
    "epochs on a 6x5 working-set problem, with the model-fit buffer checked against X w + b.",
    "Trusted: mc/ref/cert.py, mc/ref/loss.py, mc/ref/pen.py (self-tested), numpy. Bounded: n<=6, p<=5, listed alphabets; "
    "non-convex fixed-point residuals carry the 1e-7 accuracy of the brute-force reference prox. Added after seeded changes: a liveness column (every zero-weight pattern of the working-set problem must be solved to tolerance within 60 working-set iterations).",
    "DESIGN.md §4 C01")
CLAIMS["C03"] = (
    "model_checking",
    "explicit-state exploration of solver trajectories: every stopping point (max_iter, max_epochs/max_pn_iter) of a budget rectangle is a state reached by a real solve, prefix edges are validated then checked for descent",
    "For every descent solver x datafit x penalty domain (dense and CSC), designs x alphas x knob variants x cold/warm starts, all "
    "stopping points of the rectangle outer budget 0..4 x inner budget {1,2,6,7,8,14,default} (finer and larger in thorough) "
    "are executed; the true objective recomputed from the returned coefficients must be non-increasing along every validated "
    "prefix edge and never above the start. Budgets straddle both Anderson extrapolation periods. IterativeReweightedL1 "
    "histories for L0_5, L2_3, log-sum with 1..6 reweightings must be non-increasing and end at the true objective.",
    "Trusted: mc/ref objective. Prefix edges (k,e)->(k+1,e) are validated by obj_out prefix equality; (1,e)->(1,e+1) rely "
    "on determinism (RNG seeded from the data only). Non-convex penalties only in their well-posed step range. Added: the extrapolating solvers on a fixed family of AR(1)-correlated 5x6 / 8x12 designs (p0 in {1,2,3}, columns max_iter 1..7) with the model-fit buffer compared with X w at every stopping point.",
    "DESIGN.md §4 C03")
CLAIMS["C04"] = (
    "model_checking",
    "explicit-state exploration of solver trajectories (every stopping point of a budget rectangle is a state reached by a real solve), exact feasibility / finiteness invariant on every state",
    "Every constrained penalty (positive=True variants incl. zero group weights, PositiveConstraint, IndicatorBox) x every solver "
    "accepting it (AndersonCD, GramCD, ProxNewton, FISTA, GroupBCD, GroupProxNewton, PDCD_WS; dense and CSC) x designs whose "
    "unconstrained solution is infeasible x alphas x knob variants x cold / feasible / infeasible warm starts: at every "
    "stopping point of the rectangle (budgets straddling both extrapolation periods) the coefficients must satisfy the "
    "constraint exactly and all numbers be finite; positive=True estimators and LinearSVC.dual_coef_ under truncated budgets.",
    "Bounded alphabets. Poisson/Gamma/Cox are not run on 2^10-rescaled designs (exp leaves float64). Budget 0 from an "
    "infeasible start is exempt (start returned untouched). Known finding: prox-Newton solvers from infeasible starts. Added: WeightedMCPenalty(positive=True) with zero weights; weighted L1+ on CSC.",
    "DESIGN.md §4 C04")
CLAIMS["C17"] = (
    "model_checking",
    "explicit-state exploration of solver trajectories (every stopping point of a budget column is a state reached by a real solve); diagnostics invariants on every state and history-vs-iterate agreement along each column",
    "For all 9 solvers x datafits x penalty classes x storage, designs x alphas x {default tol, loose tol, intercept flipped, "
    "acceleration flipped, fixpoint} x cold/warm: in every column of outer budgets the history length must match the budget or "
    "a convergence claim, entries be finite, the last entry equal the recomputed objective of the returned point, entry i "
    "of the longest run equal the objective of the point returned with budget i+1, and on tolerance stops the returned "
    "stopping value equal the reference violation of the returned point; estimators' n_iter_ must be within budget, "
    "consistent with stop_crit_, and reproduce the fit when used as max_iter.",
    "Trusted: mc/ref objective and certificate. LBFGS / PDCD_WS exempt from the stop-value clause (other units). FISTA's stale-gradient stopping value was repaired in /repo (47f5502). Added: above-critical strength column, centred-task target.",
    "DESIGN.md §4 C17")
CLAIMS["C13"] = (
    "exploration",
    "exhaustive enumeration of the finite composition matrix (every cell validated; accepted cells executed one per checkpointed step in self-managed workers so that crashes and non-termination are observations)",
    "All 12 236 cells 14 solver variants x 14 datafits x 19 penalties x {dense, CSC} x {fit_intercept} are submitted to the "
    "library's validation; every refusal must be an AttributeError/ValueError naming what is lacking. Accepted cells (1 700+) are "
    "run by solve() on a small problem of the right kind (quick: covering subset of every accepted (solver, datafit, storage) "
    "and (solver, penalty) pair; thorough: all): the outcome must be an explained refusal or a finite result passing the "
    "certificate; a compiled-code typing/index/arithmetic error, NaN/inf, worker death or CPU-horizon overrun is a violation "
    "attributed to the cell.",
    "One problem per data kind (6x3). 'Explained' is decided by message patterns listed in the driver plus hasattr "
    "confirmation of the named attribute. Known finding (thorough tier): ProxNewton NaN on saturated unpenalised positive logistic problems.",
    "DESIGN.md §4 C13")
CLAIMS["C20"] = (
    "exploration",
    "exhaustive enumeration of accepted compositions x shapes x layouts, each executed differentially in workers with and without numba bounds checking",
    "Every cell of the C13 covering set (every accepted cell in thorough) x data shapes x contiguous / reversed / interleaved group "
    "layouts x intercept is executed twice, in a worker started with NUMBA_BOUNDSCHECK=1 and in an unchecked one: the checked "
    "run must not raise IndexError or a broadcasting error and both runs must return the same outcome and the same result to "
    "1e-10, i.e. no result depends on memory outside the arrays passed in.",
    "NUMBA_BOUNDSCHECK is numba's switch, not a hook. One problem per data kind and shape. Added: working sets of one feature for every penalty, positivity variants, zero last column, 5-feature warm starts supported on one feature.",
    "DESIGN.md §4 C20")
CLAIMS["C19"] = (
    "exploration",
    "bounded exhaustive enumeration of degenerate inputs x compositions x knob variants in self-managed workers with CPU horizons (non-termination and crashes are observations)",
    "For every accepted compile domain (all 9 solvers, dense and CSC): every placement of an all-zero column in three designs, a "
    "zero group, the all-zero matrix, duplicated / opposite / dependent / constant columns, 2^-10..2^10 rescaled columns, n<p, a "
    "single feature, two samples x targets {generic, zero, constant} x alphas x strategy / intercept / greedy / p0 variants x "
    "cold and warm starts: the outcome must be an explanatory ValueError or finite output that meets the certificate and "
    "has exact zeros on penalised all-zero columns whenever convergence is claimed; default-budget runs are watched by a CPU "
    "horizon.",
    "Exact zeros are demanded from warm starts only for convex separable penalties (block penalties shrink geometrically, flat "
    "non-convex penalties are stationary anywhere beyond gamma*alpha). Poisson/Gamma/Cox not run on rescaled designs. Added: all-zero columns stored as explicit zeros in CSC; a large-count Poisson target.",
    "DESIGN.md §4 C19")
CLAIMS["C05"] = (
    "model_checking",
    "explicit-state breadth-first search over operation histories (sequences of solve / path / set_params+fit on persistent buffers and estimators) with canonical state hashing, every transition executed on the real code",
    "(a) BFS over all sequences of solve(alpha_i), 4 alphas in any order with repetition, depth 3 (4 thorough), on persistent (w, Xw) "
    "buffers and a compiled penalty, from cold and 3-4 warm starts, for 15 solver configurations (AndersonCD, ProxNewton, "
    "GroupBCD, MultiTaskBCD, GramCD; p0 in {1,2,10}; intercept; dense/CSC) x 3 designs, states merged on (w, Xw, alpha) bytes; "
    "(b) path() for every permutation of a 3-value grid, singleton / repeated / above-critical grids, with and without w_init; "
    "(c) estimator histories fit -> (set_params -> fit)^d with warm_start=True over all parameter moves. After every transition: "
    "certificate of the current problem, caller's Xw == X w + b, optimality-gap theorem against the cold start / a fresh estimator.",
    "Trusted: mc/ref certificate and objective. Depth-bounded (closure is reported when reached). Gap theorem only for convex problems. Added: SqrtLasso.path on every grid order; multitask path starts with first-task-only-zero rows; data moves (refit on another target) in the estimator histories.",
    "DESIGN.md §4 C05")
CLAIMS["C18"] = (
    "model_checking",
    "explicit-state breadth-first search over fit/path/set_params histories on groups of persistent estimators (states rebuilt by replay, canonical hashing of params and fitted attributes), differential against single fits in fresh worker processes",
    "7 groups of 2-3 estimators sharing compiled classes x 2-4 datasets of different shapes, containers and dtypes; every history "
    "of fit / path / set_params operations up to depth 3 (4 thorough) is replayed on fresh objects; after every operation the "
    "bytes of X (incl. CSC buffers), y, weights, groups must be unchanged, and the attributes produced by fit(E params, D) must be "
    "bit-identical under every history and identical to a single fit performed in a fresh worker process (one process per "
    "reference fit).",
    "The harness owns the only RNG (power method) by reseeding before every operation. Estimator budgets are capped (tol 1e-6). Added: PDCD_WS with a user-supplied dual_init array in the solver-reuse BFS.",
    "DESIGN.md §4 C18")
CLAIMS["C11"] = (
    "exploration",
    "bounded exhaustive enumeration of estimator constructor-argument grids x designs x targets against the documented objective (reference certificate) and independent reference optima",
    "All 11 estimators x the full grid of their documented constructor arguments (alpha, l1_ratio in {0,.1,.5,1}, C, gamma, weights "
    "incl. zeros/None, group formats int / sizes / index lists incl. interleaved and out-of-order, positive, fit_intercept, method) x "
    "4 designs x 2 targets (ties among uncensored survival samples): whenever the estimator reports stop_crit_ <= tol its "
    "coefficients and intercept must be stationary for the objective written from the docstring; LinearSVC.coef_ must be the "
    "primal image of dual_coef_; convex cases must match scikit-learn's optimum through the optimality-gap theorem.",
    "Trusted: mc/estim.py documented_problem (hand-written from docstrings), mc/ref certificate, scikit-learn as comparison point "
    "(the gap theorem is valid against any point). Added: liveness clause (a convex estimator on a tiny problem must reach its tolerance within the harness budget; not for the L-BFGS route).",
    "DESIGN.md §4 C11")
CLAIMS["C12"] = (
    "exploration",
    "bounded exhaustive enumeration of label alphabets, label permutations, class counts and evaluation grids on the real classifiers, with metamorphic (relabelling, one-vs-rest) and algebraic oracles",
    "4 classifiers x 3 designs x {2,3,4} classes x 8 binary / 3 multiclass label alphabets (ints, uint8, bool, float, strings) x "
    "intercept on/off x every permutation of the label set: decision_function must be the linear model, predict the label of "
    "classes_ selected by it, probabilities finite, in [0,1], summing to one, monotone in the decision value (also at saturated "
    "points), decision values invariant under relabelling up to the induced permutation / sign, and one-vs-rest row k equal to "
    "the separate binary fit of class k vs rest, intercept included.",
    "Tolerances 1e-6 on decision values (fits at tol 1e-10); predictions compared only where the margin exceeds 1e-5. Known "
    "finding: GeneralizedLinearEstimator cannot fit more than two classes. Added: the same fit from CSR input gives the same decision values; a strong L1 strength (intercept-only one-vs-rest rows); GeneralizedLinearEstimator multiclass is now fitted and judged like the others.",
    "DESIGN.md §4 C12")
CLAIMS["C10"] = (
    "exploration",
    "bounded exhaustive enumeration of compositions / estimators x storage representations, differential comparison of the results through convexity theorems",
    "Solver level: every solver x datafit (x penalty class) domain x 3 designs x alphas is solved under 6 storages (dense F, dense C, CSC "
    "int32, CSC int64, CSC with unsorted indices, CSC with explicit zeros). Estimator level: 10 estimators x 3 designs x 7 containers "
    "(ndarray C/F, list of lists, CSR, CSC, float32 ndarray, float32 CSC). Converged results of the same problem must satisfy the "
    "optimality-gap theorem pairwise (objective equality for non-convex problems, 1e-4 for float32); an unsupported "
    "representation must be refused by AttributeError / ValueError / TypeError naming it - a compiled-code error or a dead worker is "
    "a violation.",
    "float32 containers are fitted at tol=1e-5 (a tolerance below single precision is unattainable and lets rounding drift accumulate). "
    "Known finding: GroupLasso / MultiTaskLasso on float32 data. Added: warm-started solves at solver level and weighted penalties for every solver.",
    "DESIGN.md §4 C10")
CLAIMS["C16"] = (
    "exploration",
    "bounded exhaustive enumeration of (solver, datafit, penalty variant, design, target, intercept, storage) with the critical strength bracketed on both sides against a reference null model",
    "20 solver/datafit/penalty cases (every penalty with alpha_max, the group-lasso helper, the row penalty, SqrtLasso's automatic "
    "path) x 4 designs x targets incl. a non-centred one x intercept on/off x positive / l1_ratio / weights (zeros incl.) / gamma "
    "variants x dense/CSC: the library's alpha_max evaluated at the reference null model must be critical - at alpha_max(1+1e-8) the "
    "penalised coefficients are exactly 0 and intercept / unpenalised features equal the reference null model, at "
    "alpha_max(1-1e-3) some penalised coefficient is non-zero.",
    "Reference null model: closed-form least squares / Newton. Clauses apply when the solver reports stop_crit <= 1e-10. Added: alpha = 10 alpha_max, unbalanced labels, a centred task next to shifted ones; MCP only in its (jointly) well-posed range.",
    "DESIGN.md §4 C16")
CLAIMS["C02"] = (
    "exploration",
    "bounded exhaustive enumeration of convex problems x all applicable solver routes x independent reference implementations, compared through theorems of convexity",
    "11 convex families x intercept on/off x 5 designs (n>p, n=p, n<p, duplicated column, orthogonal) x 2 targets x alpha fractions x "
    "mixing / weights / layout variants; every applicable skglm route (AndersonCD subdiff / fixpoint / p0=1, GramCD greedy / cyclic / "
    "cyclic+acc, FISTA, ProxNewton subdiff / fixpoint, GroupBCD, MultiTaskBCD, PDCD_WS) and a reference (scikit-learn, celer, HiGHS LP, scaled-Lasso alternation for sqrt-Lasso) "
    "solve the same documented objective: each converged route's recomputed violation must be within its margin, and F(w) - F(v) "
    "<= violation * ||w - v||_1 must hold against the reference solution and every other route; coefficients must agree when "
    "the problem is strongly convex.",
    "The gap inequality is a theorem for any comparison point, so inexact references cannot cause alarms. Margins: 1 (C01 solvers and FISTA, whose "
    "stale-gradient criterion was repaired). SVC: primal image compared with liblinear one-sidedly plus a duality-gap bound. Non-smooth datafits compared by objective value (1e-6).",
    "DESIGN.md §4 C02")
CLAIMS["C14"] = (
    "exploration",
    "bounded exhaustive enumeration of inputs on which a general component and its special case (both real compiled code) are run side by side; differential equality / convexity-theorem oracle",
    "13 component-level reductions (unit weights, l1_ratio = 1, singleton groups, one task, constant SLOPE, gamma / delta = 2^20, unit and "
    "integer sample weights vs replicated rows, Efron vs Breslow on every tie-free pattern, group and multitask datafits vs plain) are "
    "compared on the full prox / score / value / accessor grids (equality to 1e-10; 1e-5 for the limit cases), and 7 solution-level "
    "reductions (WeightedLasso, ElasticNet, GroupLasso, MCPRegression, MultiTaskLasso vs Lasso; estimators vs the equivalent "
    "GeneralizedLinearEstimator, bit-wise) on 4 designs x 2 alphas x intercept through the optimality-gap theorem.",
    "Differential only: the special case is the oracle of the general component (their common correctness is C06-C08's business).",
    "DESIGN.md §4 C14")
CLAIMS["C15"] = (
    "exploration",
    "exhaustive enumeration of the symmetry group of small problems (all permutations of features / groups / tasks / samples, replications, scalings) with a metamorphic convexity oracle on the real solvers",
    "For 11 convex compositions (all CD / BCD / prox-Newton / Gram / FISTA solvers, weighted penalties, non-contiguous groups) x dense / "
    "CSC x designs x intercept: every feature permutation (weights and group membership carried along), every group order, every task "
    "order, every sample order (n <= 4; 24 otherwise), replication x2 / x3, scalings of (y, alpha) and of (feature, weight): the fit of the "
    "transformed problem and the transform of the original fit must satisfy the optimality-gap theorem in both directions, and "
    "coincide when the problem is strongly convex.",
    "Convex problems only (non-convex solutions legitimately depend on the coordinate order).",
    "DESIGN.md §4 C15")
