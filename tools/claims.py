# id -> (level, technique, text, note, design_ref)      (exec'd by gen_manifest.py)
NOT_YET = {}
CLAIMS["C07"] = (
    "exploration",
    "bounded exhaustive enumeration of inputs (full cartesian product) against a brute-force reference minimiser",
    "Every prox of every penalty class is executed (compiled code) on the full product hyper-parameters x admissible "
    "steps x an x-grid containing every closed-form threshold +-{0,1ulp,1e-9,1e-3}; its prox objective must not exceed "
    "a brute-force minimum, and it must be feasible and finite. Exhaustive within the stated finite alphabets.",
    "Trusted: the reference penalty values in mc/ref/pen.py (documented formulas, self-tested one-sided derivatives) and "
    "the brute-force minimiser, which is one-sided (can only under-detect). No claim outside the alphabets.",
    "DESIGN.md §4 C07")
