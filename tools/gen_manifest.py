#!/usr/bin/env python3
"""Regenerates /verif/MANIFEST.json from the table below (run with any python3) and validates it."""
import json
import os
import sys

ROOT = os.path.dirname(os.path.dirname(os.path.abspath(__file__)))
BASELINE = ("cd /repo && /venv/bin/python -m pytest -ra -q -p no:cacheprovider --timeout=900 "
            "--continue-on-collection-errors")

# id -> (level, technique, text, note, design_ref)
CLAIMS = {}
exec(open(os.path.join(ROOT, "tools", "claims.py")).read())

ALL = ["C%02d" % i for i in range(1, 21)]
checks = []
for pid in ALL:
    if pid not in CLAIMS:
        continue
    level, technique, text, note, ref = CLAIMS[pid]
    checks.append(dict(property_id=pid, quick_cmd=f"./check {pid} --tier quick",
                       thorough_cmd=f"./check {pid} --tier thorough", evidence_file=f"evidence/{pid}.json",
                       replay_cmd_template="./check replay {path}", engine="mc",
                       level_claimed=dict(category=level, text=text, design_ref=ref), level_note=note,
                       technique=technique))
man = dict(
    version=1,
    setup_cmd="./check selftest",
    hooks=dict(guard="SKGLM_VERIF", enable="no source hooks: checks import /repo's working tree as is "
               "(editable install, PYTHONPATH=/repo forced in workers); NUMBA_BOUNDSCHECK is numba's own switch",
               baseline_off_cmd=BASELINE, source_commits=[], add_only=True),
    engines=[dict(name="mc", path="mc/", serves_properties=sorted(CLAIMS),
                  kind_free_text="hand-written bounded-exhaustive explorer of the real compiled code: engine P "
                  "(deviation-bounded cartesian products), engine B (all stopping points of a trajectory, prefix "
                  "edges), engine H (BFS over operation histories with canonical state hashing); worker pool with "
                  "CPU-time horizons, replay files, known-findings triage")],
    checks=checks,
    notes="See DESIGN.md. exit 0 = held on everything explored (KNOWN-FINDING lines allowed), 1 = VIOLATION, "
          "2 = harness error (never a verdict). VERIF_SEED only reseeds the power-method RNG.",
    not_applicable=[dict(property_id=p, reason=NOT_YET.get(p, "check not built yet in this commit (planned, see DESIGN.md §4)"))
                    for p in ALL if p not in CLAIMS],
)
with open(os.path.join(ROOT, "MANIFEST.json"), "w") as f:
    json.dump(man, f, indent=1)
try:
    import jsonschema
    jsonschema.validate(man, json.load(open("/root/.vp/MANIFEST.schema.json")))
    for p in CLAIMS:
        ev = os.path.join(ROOT, "evidence", p + ".json")
        if os.path.exists(ev):
            jsonschema.validate(json.load(open(ev)), json.load(open("/root/.vp/EVIDENCE.schema.json")))
    print("MANIFEST.json and evidence files validate;", len(checks), "checks claimed")
except ImportError:
    print("jsonschema not available in this interpreter; wrote MANIFEST.json unvalidated", file=sys.stderr)
