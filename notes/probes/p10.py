import numpy as np, warnings, time
warnings.simplefilter('ignore')
X=np.array([[1.,2,0],[0,1,1],[1,0,1],[2,1,0],[1,1,1],[0,2,1]]); y=np.array([1.,2,0,1,3,1]); yc=np.array([1,-1,1,1,-1,-1])
from sklearn.linear_model import Lasso, ElasticNet, LogisticRegression, MultiTaskLasso
from sklearn.svm import LinearSVC
t0=time.time()
print(Lasso(alpha=.1,tol=1e-14,max_iter=100000,fit_intercept=True).fit(X,y).coef_)
print(Lasso(alpha=.1,tol=1e-14,max_iter=100000,positive=True).fit(X,y).coef_)
try:
    print(LogisticRegression(penalty='l1',solver='liblinear',C=1/(6*.05),tol=1e-12,fit_intercept=False,max_iter=10000).fit(X,yc).coef_)
except Exception as e: print('logreg', e)
try:
    print(LogisticRegression(l1_ratio=1.,solver='saga',C=1/(6*.05),tol=1e-12,fit_intercept=True,max_iter=100000).fit(X,yc).coef_)
except Exception as e: print('logreg saga', e)
print(LinearSVC(loss='hinge',C=1.,fit_intercept=False,tol=1e-12,max_iter=100000,dual=True).fit(X,yc).coef_)
print(MultiTaskLasso(alpha=.1,tol=1e-14,max_iter=100000).fit(X,np.c_[y,-y]).coef_)
from celer import GroupLasso
print(GroupLasso(groups=[[0,1],[2]],alpha=.1,tol=1e-14,fit_intercept=False).fit(X,y).coef_)
from scipy.optimize import linprog
print(linprog([1,1],A_ub=[[-1,0]],b_ub=[0],method='highs').status)
print(time.time()-t0)
