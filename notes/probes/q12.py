import numpy as np, warnings, scipy.sparse as sp, itertools
warnings.simplefilter('ignore')
import sklearn.base
from sklearn.utils.validation import validate_data
if not hasattr(sklearn.base.BaseEstimator, "_validate_data"):
    sklearn.base.BaseEstimator._validate_data = lambda self, X="no_validation", y="no_validation", **kw: validate_data(self, X=X, y=y, **kw)
from skglm import SparseLogisticRegression, LinearSVC, Lasso, GroupLasso, MultiTaskLasso, ElasticNet, WeightedLasso, MCPRegression
import skglm.datafits as D, skglm.penalties as P, skglm.solvers as S
from skglm.utils.jit_compilation import compiled_clone as cc
X=np.array([[1.,2,0],[0,1,1],[1,0,1],[2,1,0],[-1,.5,1],[0,-1,2],[1,1,-1]],order='F')
y3=np.array([0,1,2,0,1,2,1])
# C12 OvR vs per-class binary
clf=SparseLogisticRegression(alpha=.05,tol=1e-10).fit(X,y3)
for k in range(3):
    b=SparseLogisticRegression(alpha=.05,tol=1e-10).fit(X,(y3==k).astype(int))
    print('class',k,'coef diff',np.abs(clf.coef_[k]-b.coef_[0]).max(),'binary intercept',b.intercept_,'ovr intercept',np.atleast_1d(clf.intercept_))
print('decision', clf.decision_function(X[:2]))
# relabel
a=SparseLogisticRegression(alpha=.05,tol=1e-10).fit(X,np.array(['u','v'])[ (y3>0).astype(int)]); b=SparseLogisticRegression(alpha=.05,tol=1e-10).fit(X,np.array([7,3])[(y3>0).astype(int)])
print('relabel order-reversed: coef sum', np.abs(a.coef_+b.coef_).max(), a.intercept_, b.intercept_, a.predict(X), b.predict(X))
print('proba sum', SparseLogisticRegression(alpha=.05).fit(X,y3).predict_proba(X).sum(1))
# C11 LinearSVC primal image
yb=np.array([1,-1,1,1,-1,-1,1]); sv=LinearSVC(C=.5,tol=1e-10).fit(X,yb)
print('svc primal image err', np.abs(sv.coef_[0]-(sv.dual_coef_[0]*yb)@X).max(), 'dual range', sv.dual_coef_.min(), sv.dual_coef_.max())
# C10 dense vs sparse solvers
yr=np.array([1.,2,0,1,-1,3,.5]); Xs=sp.csc_matrix(X)
for name,mk in [('ACD L1',lambda: (S.AndersonCD(tol=1e-12),cc(D.Quadratic()),cc(P.L1(.1)))),('PN logistic',lambda:(S.ProxNewton(tol=1e-12),cc(D.Logistic()),cc(P.L1(.02)))),('ACD huber',lambda:(S.AndersonCD(tol=1e-12),cc(D.Huber(.7)),cc(P.L1(.05))))]:
    yy=yb.astype(float) if 'logistic' in name else yr
    s,d,p=mk(); wd=s.solve(X,yy,d,p)[0]; s,d,p=mk(); ws=s.solve(Xs,yy,d,p)[0]
    print(name,'dense-sparse',np.abs(wd-ws).max())
gp=np.array([0,2,3],dtype=np.int32); gi=np.array([0,1,2],dtype=np.int32)
mk=lambda:(S.GroupBCD(tol=1e-12,fit_intercept=True),cc(D.QuadraticGroup(gp,gi)),cc(P.WeightedGroupL2(.1,np.ones(2),gp,gi)))
s,d,p=mk(); wd=s.solve(X,yr,d,p)[0]; s,d,p=mk(); ws=s.solve(Xs,yr,d,p)[0]; print('GroupBCD dense-sparse',np.abs(wd-ws).max())
Y=np.c_[yr,-yr+1]
mk=lambda:(S.MultiTaskBCD(tol=1e-12),cc(D.QuadraticMultiTask()),cc(P.L2_1(.1)))
s,d,p=mk(); wd=s.solve(X,Y,d,p)[0]; s,d,p=mk(); ws=s.solve(Xs,Y,d,p)[0]; print('MTBCD dense-sparse',np.abs(wd-ws).max())
# float32 / list / csr via estimator
l=Lasso(.1,tol=1e-10); c64=l.fit(X,yr).coef_.copy(); print('f32',np.abs(l.fit(X.astype(np.float32),yr).coef_-c64).max(),'list',np.abs(l.fit(X.tolist(),yr.tolist()).coef_-c64).max(),'csr',np.abs(l.fit(sp.csr_matrix(X),yr).coef_-c64).max())
