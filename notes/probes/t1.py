import time, numpy as np, warnings
t0=time.time()
from skglm.solvers import AndersonCD, ProxNewton, GroupBCD
from skglm.datafits import Quadratic, Logistic
from skglm.penalties import L1, MCPenalty
from skglm.utils.jit_compilation import compiled_clone
print('import', time.time()-t0)
X=np.array([[1.,2,0],[0,1,1],[1,0,1],[2,1,0]],order='F'); y=np.array([1.,2,0,1])
t0=time.time()
d=compiled_clone(Quadratic()); p=compiled_clone(L1(0.1))
s=AndersonCD(fit_intercept=True,tol=1e-8)
print(s.solve(X,y,d,p)); print('first solve', time.time()-t0)
t0=time.time()
for i in range(200):
    d=compiled_clone(Quadratic()); p=compiled_clone(L1(0.1+i*1e-3))
    s.solve(X,y,d,p)
print('200 solves', time.time()-t0)
t0=time.time()
p=compiled_clone(MCPenalty(0.1,3.)); s.solve(X,y,d,p); print('new penalty first solve', time.time()-t0)
t0=time.time()
s2=AndersonCD(fit_intercept=True,tol=1e-8,ws_strategy='fixpoint'); s2.solve(X,y,d,p); print('fixpoint first', time.time()-t0)
from skglm import Lasso
try:
    Lasso(0.1).fit(X,y)
except Exception as e: print('Lasso.fit:', type(e), e)
