import numpy as np, warnings, scipy.sparse as sp
warnings.simplefilter('ignore')
import sklearn.base
from sklearn.utils.validation import validate_data
if not hasattr(sklearn.base.BaseEstimator, "_validate_data"):
    sklearn.base.BaseEstimator._validate_data = lambda self, X="no_validation", y="no_validation", **kw: validate_data(self, X=X, y=y, **kw)
import skglm.datafits as D, skglm.penalties as P, skglm.solvers as S
from skglm import Lasso
from skglm.experimental import SqrtLasso, IterativeReweightedL1
from skglm.utils.jit_compilation import compiled_clone as cc
from skglm.utils.sparse_ops import spectral_norm
from numba import njit
def tr(name, f):
    try:
        r=f(); print(name, '->', str(r)[:300].replace('\n',' '))
    except BaseException as e:
        print(name, 'EXC', type(e).__name__, str(e).split('\n')[0][:200])
@njit
def seed(s): np.random.seed(s)
X=np.array([[1.,2,0],[0,1,1],[1,0,1],[2,1,0]],order='F'); y=np.array([1.,2,0,1]); Xs=sp.csc_matrix(X)
def sn(s):
    seed(s); return spectral_norm(Xs.data,Xs.indptr,Xs.indices,4,max_iter=3)
print('spectral seeds', sn(1), sn(1), sn(2), np.linalg.norm(X,2))
# n_features_in_
l=Lasso(.1).fit(X,y); l.fit(X[:,:2],y); print('n_features_in_ after refit p=2:', l.n_features_in_, l.coef_.shape)
tr('predict after refit', lambda: l.predict(X[:,:2]))
# SqrtLasso solver_
s=SqrtLasso(alpha=.1,tol=1e-4).fit(X,y); s.set_params(tol=1e-12, max_iter=1); s.fit(X,y); print('SqrtLasso solver_ tol/max_iter', s.solver_.tol, s.solver_.max_iter)
# IRL1 refit
ir=IterativeReweightedL1(solver=S.AndersonCD(fit_intercept=False))
tr('IRL1 fit1', lambda: ir.fit(X,y).coef_); tr('IRL1 fit2', lambda: ir.fit(X,y).coef_)
ir2=IterativeReweightedL1(solver=S.AndersonCD(fit_intercept=False))
tr('IRL1 second object fit', lambda: ir2.fit(X,y).coef_)
# cyclic gram zero col
X0=X.copy(); X0[:,2]=0
tr('GramCD cyclic zero col', lambda: S.GramCD(greedy_cd=False,tol=1e-8).solve(X0,y,None,cc(P.L1(.1))))
# max_iter=0
tr('PN max_iter=0', lambda: S.ProxNewton(max_iter=0).solve(X,y,cc(D.Quadratic()),cc(P.L1(.1)),np.ones(4),X@np.ones(3)+1))
# AndersonCD + QuadraticGroup
gp=np.array([0,2,3],dtype=np.int32); gi=np.array([0,1,2],dtype=np.int32)
tr('ACD+QuadraticGroup+L1', lambda: S.AndersonCD(fit_intercept=False,tol=1e-8).solve(X,y,cc(D.QuadraticGroup(gp,gi)),cc(P.L1(.1))))
tr('ACD+Quadratic+L1', lambda: S.AndersonCD(fit_intercept=False,tol=1e-8).solve(X,y,cc(D.Quadratic()),cc(P.L1(.1))))
