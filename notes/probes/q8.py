import numpy as np, warnings, itertools, time, collections
warnings.simplefilter('ignore')
import skglm.datafits as D, skglm.penalties as P, skglm.solvers as S
from skglm.utils.jit_compilation import compiled_clone as cc
vals=[-1.,0.,1.]
designs=[np.asfortranarray(np.array(c,dtype=float).reshape(4,2)) for c in itertools.product(vals,repeat=8)][::7]
def lobj(X,y,w,b,alpha): return np.log1p(np.exp(-y*(X@w+b))).mean()+alpha*np.abs(w).sum()
def lcert(X,y,w,b,alpha,fi):
    z=X@w+b; rg=-y/(1+np.exp(y*z))/len(y); g=X.T@rg; v=0.
    for j in range(len(w)):
        v=max(v, max(0,abs(g[j])-alpha) if w[j]==0 else abs(g[j]+np.sign(w[j])*alpha))
    return max(v,abs(rg.sum())) if fi else v
cnt=collections.Counter(); bad=[]
d=cc(D.Logistic()); t0=time.time()
ys=[np.array([1.,-1,1,-1]),np.array([1.,1,-1,-1]),np.array([1.,-1,-1,-1])]
for X in designs:
    for y in ys:
        for alpha in (.02,.1):
            pen=cc(P.L1(alpha))
            for fi in (False,True):
                for strat in ('subdiff','fixpoint'):
                    prev=None
                    for k in range(0,6):
                        s=S.ProxNewton(max_iter=k,p0=1,tol=1e-8,fit_intercept=fi,ws_strategy=strat)
                        w,o,sc=s.solve(X,y,d,pen); cnt['runs']+=1
                        b=w[-1] if fi else 0.; ww=w[:2]
                        ob=lobj(X,y,ww,b,alpha)
                        if not np.isfinite(w).all(): bad.append(('nonfinite',X.tolist(),y.tolist(),alpha,fi,strat,k)); continue
                        if k>0 and sc<=1e-8 and strat=='subdiff':
                            cnt['conv']+=1; c=lcert(X,y,ww,b,alpha,fi)
                            if c>1e-8*(1+1e-6)+1e-10: bad.append(('cert',X.tolist(),y.tolist(),alpha,fi,strat,k,sc,c))
                        if prev is not None and ob>prev+1e-12: bad.append(('ascent',X.tolist(),y.tolist(),alpha,fi,strat,k,prev,ob))
                        prev=ob
print(cnt,time.time()-t0,len(bad)); print(collections.Counter(b[0] for b in bad))
for b in bad[:6]: print(b)
