import numpy as np, warnings, scipy.sparse as sp
import sklearn.base
from sklearn.utils.validation import validate_data
if not hasattr(sklearn.base.BaseEstimator, "_validate_data"):
    def _validate_data(self, X="no_validation", y="no_validation", reset=True, validate_separately=False, **kw):
        return validate_data(self, X=X, y=y, reset=reset, validate_separately=validate_separately, **kw)
    sklearn.base.BaseEstimator._validate_data = _validate_data
from skglm import Lasso, ElasticNet, MCPRegression, WeightedLasso, GroupLasso, MultiTaskLasso, SparseLogisticRegression, LinearSVC, CoxEstimator, GeneralizedLinearEstimator
X=np.array([[1.,2,0],[0,1,1],[1,0,1],[2,1,0]],order='F'); y=np.array([1.,2,0,1])
for est in [Lasso(0.1), ElasticNet(0.1,0.5), MCPRegression(0.1), WeightedLasso(0.1,np.array([1.,2,0])), GroupLasso([[0,1],[2]],0.1), GeneralizedLinearEstimator()]:
    try:
        est.fit(X,y); print(type(est).__name__, est.coef_, est.intercept_, est.n_iter_)
    except Exception as e: print(type(est).__name__, 'ERR', type(e), e)
    try:
        est.fit(sp.csc_matrix(X),y); print(' sparse', est.coef_, est.intercept_)
    except Exception as e: print(type(est).__name__, 'sparse ERR', type(e), str(e)[:200])
Y=np.c_[y,2*y-1]
m=MultiTaskLasso(0.1).fit(X,Y); print(m.coef_, m.intercept_)
yc=np.array([0,1,1,0])
for est in [SparseLogisticRegression(0.1), LinearSVC(1.)]:
    est.fit(X,yc); print(type(est).__name__, est.coef_, est.intercept_)
    est.fit(X,np.array(['a','b','c','a'])); print(type(est).__name__, est.coef_, est.intercept_, est.classes_)
yy=np.c_[[1.,2,2,3],[1,1,0,1]]
for meth in ['efron','breslow']:
    for l1r in [1.,.5,0.]:
        try:
            c=CoxEstimator(0.1,l1r,meth).fit(X,yy); print('cox',meth,l1r,c.coef_)
        except Exception as e: print('cox',meth,l1r,'ERR',type(e),str(e)[:300])
