import numpy as np, warnings, scipy.sparse as sp, traceback
warnings.simplefilter('ignore')
import skglm.datafits as _d; globals().update({k:getattr(_d,k) for k in dir(_d) if k[0].isupper()})
import skglm.penalties as _p; globals().update({k:getattr(_p,k) for k in dir(_p) if k[0].isupper()})
import skglm.solvers as _s; globals().update({k:getattr(_s,k) for k in dir(_s) if k[0].isupper()})
from skglm.utils.jit_compilation import compiled_clone as cc
def tr(name, f):
    try:
        r=f(); print(name, '->', r)
    except BaseException as e:
        print(name, 'EXC', type(e).__name__, str(e).split('\n')[0][:160])
X=np.array([[1.,2,0],[0,1,1],[1,0,1],[2,1,0]],order='F'); y=np.array([1.,2,0,1]); Xs=sp.csc_matrix(X)
gp=np.array([0,2,3],dtype=np.int32); gi=np.array([0,1,2],dtype=np.int32)
# 8 GroupBCD zero-padded
d=cc(QuadraticGroup(gp,gi)); p=cc(WeightedGroupL2(.1,np.ones(2),gp,gi))
tr('GroupBCD obj_out', lambda: GroupBCD(max_iter=6,tol=1e-6).solve(X,y,d,p)[1:])
tr('GroupBCD w_init only', lambda: GroupBCD(max_iter=6,tol=1e-6).solve(X,y,d,p,w_init=np.zeros(3)))
# 14 zero group
X0=X.copy(); X0[:,2]=0
tr('GroupBCD zero group', lambda: GroupBCD(max_iter=6,tol=1e-6).solve(X0,y,d,p))
tr('GroupPN zero group', lambda: GroupProxNewton(max_iter=6,tol=1e-6).solve(X0,y,d,p) if False else 'skip (QuadraticGroup no raw_grad)')
# 13 GramCD zero col
tr('GramCD zero col', lambda: GramCD(tol=1e-8).solve(X0,y,None,cc(L1(.1))))
tr('AndersonCD zero col', lambda: AndersonCD(tol=1e-8,fit_intercept=False).solve(X0,y,cc(Quadratic()),cc(L1(.1))))
# 9 MultiTaskBCD
Y=np.c_[y,2*y-1.]
dm=cc(QuadraticMultiTask()); pm=cc(L2_1(.1))
tr('MTBCD max_epochs=5 noacc', lambda: MultiTaskBCD(max_iter=3,max_epochs=5,use_acc=False,tol=1e-10).solve(X,Y,dm,pm)[1:])
def mt():
    W,obj,sc=MultiTaskBCD(max_iter=3,max_epochs=20,tol=1e-10,fit_intercept=True).solve(X,Y,dm,pm)
    XW=X@W[:3]+W[-1]
    true=((Y-XW)**2).sum()/(2*4)+.1*np.sqrt((W[:3]**2).sum(1)).sum()
    return obj, true, sc
tr('MTBCD obj vs true', mt)
# alpha_max multitask with intercept
def mt2():
    Yc=Y+5
    g0=X.T@(Yc-Yc.mean(0))/4; am=np.sqrt((g0**2).sum(1)).max()
    W,obj,sc=MultiTaskBCD(tol=1e-8,fit_intercept=True).solve(X,Yc,cc(QuadraticMultiTask()),cc(L2_1(am*1.01)))
    return W, sc
tr('MTBCD alpha_max intercept', mt2)
# LogisticGroup get_lipschitz
yl=np.array([1.,-1,1,-1]); dl=cc(LogisticGroup(gp,gi)); dl.initialize(X,yl)
tr('LogisticGroup get_lipschitz vs lipschitz', lambda: (dl.get_lipschitz(X,yl), dl.lipschitz))
