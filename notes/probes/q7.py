# throwaway probe: certificate + descent oracles on correct-looking compositions (hunting false-alarm sources)
import numpy as np, warnings, itertools, time, collections
warnings.simplefilter('ignore')
import skglm.datafits as D, skglm.penalties as P, skglm.solvers as S
from skglm.utils.jit_compilation import compiled_clone as cc
vals=[-1.,0.,1.]
designs=[np.asfortranarray(np.array(c).reshape(3,2).T.reshape(3,2)) for c in itertools.product(vals,repeat=6)]
designs=[np.asfortranarray(np.array(c,dtype=float).reshape(3,2)) for c in itertools.product(vals,repeat=6)]
def cert_l1_quad(X,y,w,b,alpha,pos=False):
    r=X@w+b-y; g=X.T@r/len(y)
    v=0.
    for j in range(len(w)):
        if w[j]==0: v=max(v, max(0,abs(g[j])-alpha) if not pos else max(0,-g[j]-alpha))
        else: v=max(v,abs(g[j]+np.sign(w[j])*alpha))
    return max(v,abs(r.mean()) if b is not None else 0)
def obj(X,y,w,b,alpha): return ((X@w+b-y)**2).sum()/(2*len(y))+alpha*np.abs(w).sum()
cnt=collections.Counter(); bad=[]
d=cc(D.Quadratic()); t0=time.time()
ys=[np.array([1.,-1,2]),np.array([0.,0,0]),np.array([1.,1,1]),np.array([2.,-1,.5])]
for X in designs:
    for y in ys:
        for alpha in (.05,.3):
            pen=cc(P.L1(alpha))
            for fi in (False,True):
                for p0 in (1,10):
                    prev=None
                    for k in range(0,5):
                        for e in (1,7,50000):
                            s=S.AndersonCD(max_iter=k,max_epochs=e,p0=p0,tol=1e-8,fit_intercept=fi)
                            w,o,sc=s.solve(X,y,d,pen); cnt['runs']+=1
                            b=w[-1] if fi else 0.; ww=w[:2]
                            if sc<=1e-8:
                                cnt['conv']+=1
                                c=cert_l1_quad(X,y,ww,b if fi else 0.,alpha)
                                if not fi: c=cert_l1_quad(X,y,ww,0.,alpha) if True else c
                                if fi is False:
                                    r=X@ww-y; 
                                if c>1e-8*(1+1e-6)+1e-10 and fi: bad.append(('cert',X.tolist(),y.tolist(),alpha,fi,p0,k,e,sc,c))
                            ob=obj(X,y,ww,b,alpha)
                            if ob>obj(X,y,np.zeros(2),0.,alpha)+1e-12: bad.append(('above start',X.tolist(),y.tolist(),alpha,fi,p0,k,e,ob))
                            if len(o) and abs(o[-1]-ob)>1e-10: bad.append(('hist',X.tolist(),y.tolist(),alpha,fi,p0,k,e,o[-1],ob))
print(cnt,time.time()-t0,len(bad)); 
kinds=collections.Counter(b[0] for b in bad); print(kinds)
for b in bad[:5]: print(b)
