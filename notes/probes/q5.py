import numpy as np, warnings
warnings.simplefilter('ignore')
import skglm.datafits as D
from skglm.utils.jit_compilation import compiled_clone as cc
X=np.array([[1.,2,0],[0,1,1],[1,0,1],[2,1,0]],order='F'); u=np.array([.1,.2,-.1,.3])
for order in ('F','C'):
    for tm in ([1.,2,2,3],[1,2,2,3]):
        y=np.array(np.c_[tm,[1.,1,0,1]],order=order)
        dj=cc(D.Cox(True))
        try:
            dj.initialize(X,y); print(order,y.dtype,'ok',dj.value(y,np.zeros(3),u))
        except Exception as e: print(order,y.dtype,'EXC',type(e).__name__, str(e)[:100].replace('\n',' '))
y=np.c_[(1.0,1.0,1.0,1.0),(0.,0.,0.,0.)]; dj=cc(D.Cox(False)); dj.initialize(X,y)
try: print(dj.value(y,np.zeros(3),u))
except Exception as e: print('allzero s EXC',type(e).__name__)
y=np.c_[(1.0,1.0,1.0,2.0),(0.,0.,0.,1.)]; dj=cc(D.Cox(True)); dj.initialize(X,y); print('efron single', dj.value(y,np.zeros(3),u), dj.H_indices, dj.H_indptr)
y=np.c_[(1.0,1.0,1.0,2.0),(0.,0.,0.,0.)]; dj=cc(D.Cox(True)); 
try:
    dj.initialize(X,y); print('efron no events', dj.value(y,np.zeros(3),u), dj.H_indices, dj.H_indptr)
except Exception as e: print('efron no events EXC',type(e).__name__,str(e)[:300])
