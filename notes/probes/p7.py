import numpy as np, warnings, time
warnings.simplefilter('ignore')
import skglm.penalties as P, skglm.datafits as D
from skglm.utils.jit_compilation import compiled_clone as cc
t0=time.time(); p=cc(P.SCAD(1.,3.)); print('ctor',time.time()-t0)
t0=time.time(); p.prox_1d(1.,.5,0); print('prox first',time.time()-t0)
t0=time.time(); p.subdiff_distance(np.zeros(3),np.ones(3),np.arange(3)); print('subdiff first',time.time()-t0)
t0=time.time(); p.value(np.zeros(3)); print('value first',time.time()-t0)
t0=time.time()
for i in range(100000): p.prox_1d(1.+i*1e-6,.5,0)
print('100k prox calls',time.time()-t0)
d=cc(D.Cox(True)); X=np.random.randn(5,3); y=np.c_[[1.,2,2,3,2],[1,1,1,1,0]]
t0=time.time(); d.initialize(X,y); d.value(y,np.zeros(3),np.zeros(5)); d.raw_grad(y,np.zeros(5)); d.raw_hessian(y,np.zeros(5)); print('cox methods first',time.time()-t0)
