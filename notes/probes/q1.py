# throwaway probe: brute-force check of scalar proxes
import numpy as np, warnings, itertools, time
warnings.simplefilter('ignore')
import skglm.penalties as P
from skglm.utils.jit_compilation import compiled_clone as cc
def val(pen, u):  # reference values (documented formulas)
    n=type(pen).__name__; a=getattr(pen,'alpha',None); au=np.abs(u)
    if n=='L1': return a*au
    if n=='L1_plus_L2': return a*pen.l1_ratio*au + a*(1-pen.l1_ratio)/2*u**2
    if n=='MCPenalty':
        g=pen.gamma; return np.where(au<=a*g, a*au-u**2/(2*g), g*a**2/2)
    if n=='SCAD':
        g=pen.gamma; return np.where(au<=a, a*au, np.where(au<=a*g,(2*g*a*au-u**2-a**2)/(2*(g-1)), a**2*(g+1)/2))
    if n=='L0_5': return a*np.sqrt(au)
    if n=='L2_3': return a*au**(2/3)
    if n=='LogSumPenalty': return a*np.log1p(au/pen.eps)
    if n=='IndicatorBox': return np.where((u<0)|(u>a), np.inf, 0.)
    if n=='PositiveConstraint': return np.where(u<0,np.inf,0.)
def brute(pen,x,s,positive=False):
    lo=min(0,x)-1; hi=max(0,x)+1
    u=np.unique(np.r_[np.linspace(lo,hi,20001),0.,x, getattr(pen,'alpha',0) or 0])
    if positive: u=u[u>=0]
    F=0.5*(u-x)**2+s*val(pen,u)
    i=np.argmin(F); 
    # refine
    l,h=u[max(i-1,0)],u[min(i+1,len(u)-1)]
    uu=np.linspace(l,h,2001)
    if positive: uu=uu[uu>=0]
    FF=0.5*(uu-x)**2+s*val(pen,uu)
    return min(F[i],FF.min())
pens=[P.L1(.7),P.L1(.7,True),P.L1_plus_L2(.7,.4),P.L1_plus_L2(.7,.4,True),P.MCPenalty(.7,3.),P.MCPenalty(.7,3.,True),P.SCAD(.7,3.),P.L0_5(.7),P.L2_3(.7),P.LogSumPenalty(.7,.3),P.LogSumPenalty(.05,.5),P.IndicatorBox(.7),P.PositiveConstraint()]
xs=np.r_[np.linspace(-4,4,161),[0.,1e-9,-1e-9]]
for pen in pens:
    pj=cc(pen); worst=0; wx=None; nonfin=0
    pos=getattr(pen,'positive',False)
    for s in (.1,.5,1.,1.9):
        for x in xs:
            try: u=pj.prox_1d(x,s,0)
            except Exception as e: nonfin+=1; continue
            if not np.isfinite(u): nonfin+=1; continue
            Fu=0.5*(u-x)**2+s*float(val(pen,np.array([u]))[0])
            Fb=brute(pen,x,s,pos)
            if Fu-Fb>worst: worst=Fu-Fb; wx=(x,s,u)
    print(type(pen).__name__, pos, 'worst excess', worst, wx, 'nonfinite', nonfin)
