import numpy as np, warnings, scipy.sparse as sp, traceback
warnings.simplefilter('ignore')
import skglm.datafits as _d; globals().update({k:getattr(_d,k) for k in dir(_d) if k[0].isupper()})
import skglm.penalties as _p; globals().update({k:getattr(_p,k) for k in dir(_p) if k[0].isupper()})
import skglm.solvers as _s; globals().update({k:getattr(_s,k) for k in dir(_s) if k[0].isupper()})
from skglm.utils.jit_compilation import compiled_clone as cc
from skglm.utils.prox_funcs import BST
def tr(name, f):
    try:
        r=f(); print(name, '->', r)
    except BaseException as e:
        print(name, 'EXC', type(e).__name__, str(e).split('\n')[0][:160])
X=np.array([[1.,2,0],[0,1,1],[1,0,1],[2,1,0]],order='F'); y=np.array([1.,2,0,1]); Xs=sp.csc_matrix(X)
Xw=np.array([.1,.2,-.1,.3])
# 2 Poisson sparse
d=cc(Poisson()); 
tr('poisson dense grad', lambda: X.T@d.raw_grad(y,Xw))
tr('poisson full_grad_sparse', lambda: d.full_grad_sparse(Xs.data,Xs.indptr,Xs.indices,y,Xw))
# 3 WQ sparse
d=cc(WeightedQuadratic(np.array([1.,2,1,1])))
tr('WQ init sparse', lambda: d.initialize_sparse(Xs.data,Xs.indptr,Xs.indices,y))
tr('WQ glob lip', lambda: (d.get_global_lipschitz(X,y), np.linalg.norm(np.sqrt(d.sample_weights)[:,None]*X,2)**2/d.sample_weights.sum()))
# 5 WL1GL2
gp=np.array([0,2,3],dtype=np.int32); gi=np.array([0,1,2],dtype=np.int32)
p=cc(WeightedL1GroupL2(1., np.array([1.,1.]), np.array([0.,5.,0.]), gp, gi))
tr('WL1GL2 prox g0 (feat weights 0,5)', lambda: p.prox_1group(np.array([3.,3.]),1.,0))
# 6 BST 0,0
tr('BST(0,0)', lambda: BST(np.zeros(2),0.))
p=cc(BlockMCPenalty(1.,3.)); tr('BlockMCP prox 0', lambda: p.prox_1feat(np.zeros(2),.5,0))
p=cc(BlockSCAD(1.,3.)); tr('BlockSCAD prox 0', lambda: p.prox_1feat(np.zeros(2),.5,0))
p=cc(L2_05(1.)); tr('L2_05 prox 0', lambda: p.prox_1feat(np.zeros(2),.5,0))
p=cc(WeightedGroupL2(1.,np.array([0.,1.]),gp,gi)); tr('WGL2 prox 0 w=0', lambda: p.prox_1group(np.zeros(2),.5,0))
