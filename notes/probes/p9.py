import numpy as np, warnings, itertools, time
warnings.simplefilter('ignore')
import skglm.datafits as D, skglm.penalties as P, skglm.solvers as S
from skglm.utils.jit_compilation import compiled_clone as cc
from skglm.utils.anderson import AndersonAcceleration
a=AndersonAcceleration(5)
for i in range(1,16):
    _,_,e=a.extrapolate(np.random.randn(3),np.random.randn(4))
    if e: print('extrapolated at call',i)
# C04 search: positive L1, does any returned w have negative entries?
vals=[-1.,0.,1.]
t0=time.time(); n=0; bad=[]; nacc=0
d=cc(D.Quadratic())
for cols in itertools.product(itertools.product(vals,repeat=3),repeat=3):
    X=np.asfortranarray(np.array(cols).T)
    if (X==0).all(0).any(): continue
    for y in ([1.,-1,2],[1.,2,-1],[-1.,-2,1]):
        y=np.array(y)
        for alpha in (.01,.1):
            pen=cc(P.L1(alpha,True))
            for e in (7,8,14):
                w,obj,sc=S.AndersonCD(max_iter=1,max_epochs=e,p0=3,tol=1e-12,fit_intercept=False).solve(X,y,d,pen)
                n+=1
                if (w<0).any() or not np.isfinite(w).all(): bad.append((X.tolist(),y.tolist(),alpha,e,w.tolist()))
print(n,'runs',time.time()-t0,'bad',len(bad)); print(bad[:3])
