import numpy as np, warnings
warnings.simplefilter('ignore')
import skglm.datafits as D, skglm.penalties as P
from skglm.utils.jit_compilation import compiled_clone as cc, jit_cached_compile
p=cc(P.WeightedL1(.5,np.array([1.,2.])))
print('fields', list(p._numba_type_.struct.keys()))
print({k:getattr(p,k) for k in p._numba_type_.struct})
print('cache info', jit_cached_compile.cache_info())
d=cc(D.Quadratic())
print('fields', list(d._numba_type_.struct.keys()))
import sys; sys.stdout.flush()
try:
    print('uninit Xty:', d.Xty)
except BaseException as e: print('EXC',type(e).__name__,e)
