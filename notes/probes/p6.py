import numpy as np, warnings, scipy.sparse as sp
warnings.simplefilter('ignore')
import skglm.datafits as D, skglm.penalties as P, skglm.solvers as S
from skglm.experimental import PDCD_WS, Pinball, SqrtQuadratic
gp=np.array([0,2,3],dtype=np.int32); gi=np.array([0,1,2],dtype=np.int32)
dfs={'Quadratic':D.Quadratic(),'WeightedQuadratic':D.WeightedQuadratic(np.ones(4)),'Logistic':D.Logistic(),'QuadraticSVC':D.QuadraticSVC(),'Huber':D.Huber(1.),'Poisson':D.Poisson(),'Gamma':D.Gamma(),'Cox':D.Cox(),'QuadraticMultiTask':D.QuadraticMultiTask(),'QuadraticGroup':D.QuadraticGroup(gp,gi),'LogisticGroup':D.LogisticGroup(gp,gi),'SqrtQuadratic':SqrtQuadratic(),'Pinball':Pinball(.5),'None':None}
pens={'L1':P.L1(1.),'L1_plus_L2':P.L1_plus_L2(1.,.5),'WeightedL1':P.WeightedL1(1.,np.ones(3)),'MCP':P.MCPenalty(1.,3.),'WMCP':P.WeightedMCPenalty(1.,3.,np.ones(3)),'SCAD':P.SCAD(1.,3.),'IndicatorBox':P.IndicatorBox(1.),'L0_5':P.L0_5(1.),'L2_3':P.L2_3(1.),'LogSum':P.LogSumPenalty(1.,1.),'PositiveConstraint':P.PositiveConstraint(),'L2':P.L2(1.),'L2_1':P.L2_1(1.),'L2_05':P.L2_05(1.),'BlockMCP':P.BlockMCPenalty(1.,3.),'BlockSCAD':P.BlockSCAD(1.,3.),'WGL2':P.WeightedGroupL2(1.,np.ones(2),gp,gi),'WL1GL2':P.WeightedL1GroupL2(1.,np.ones(2),np.ones(3),gp,gi),'SLOPE':P.SLOPE(np.ones(3))}
sol={'AndersonCD':S.AndersonCD(),'AndersonCD_fp':S.AndersonCD(ws_strategy='fixpoint'),'ProxNewton':S.ProxNewton(),'ProxNewton_fp':S.ProxNewton(ws_strategy='fixpoint'),'GroupBCD':S.GroupBCD(),'GroupBCD_fp':S.GroupBCD(ws_strategy='fixpoint'),'GroupProxNewton':S.GroupProxNewton(),'MultiTaskBCD':S.MultiTaskBCD(),'MultiTaskBCD_fp':S.MultiTaskBCD(ws_strategy='fixpoint'),'GramCD':S.GramCD(),'LBFGS':S.LBFGS(),'FISTA':S.FISTA(),'FISTA_fp':S.FISTA(opt_strategy='fixpoint'),'PDCD_WS':PDCD_WS()}
X=np.zeros((4,3)); Xs=sp.csc_matrix(X); y=np.zeros(4)
tot=0; acc={}
for sn,s in sol.items():
    for st,XX in (('dense',X),('csc',Xs)):
        n=0
        for dn,d in dfs.items():
            for pn,p in pens.items():
                tot+=1
                try:
                    s._validate(XX,y,d,p); n+=1
                except (AttributeError,ValueError) as e: pass
                except Exception as e: print('OTHER',sn,st,dn,pn,type(e),e)
        acc[(sn,st)]=n
print(tot, sum(acc.values())); print(acc)
