import numpy as np, warnings, itertools
warnings.simplefilter('ignore')
import skglm.penalties as P
from skglm.utils.jit_compilation import compiled_clone as cc
def numgrad(f,u,h=1e-6):
    g=np.zeros_like(u)
    for i in range(len(u)):
        e=np.zeros_like(u); e[i]=h; g[i]=(f(u+e)-f(u-e))/(2*h)
    return g
rows=[np.array(r) for r in itertools.product([-2.,-.5,0.,.5,2.,3.],repeat=2)]
grads=[np.array(r) for r in itertools.product([-1.5,-.3,0.,.3,1.5],repeat=2)]
for pen in [P.L2_1(.7),P.L2_05(.7),P.BlockMCPenalty(.7,3.),P.BlockSCAD(.7,3.)]:
    pj=cc(pen); worst=0; arg=None
    f=lambda r: float(pj.value(r[None,:].copy()))
    for r in rows:
        for g in grads:
            sc=pj.subdiff_distance(r[None,:].copy(),g[None,:].copy(),np.array([0]))[0]
            if np.any(r):
                ref=np.linalg.norm(g+numgrad(f,r))
            else:
                if type(pen).__name__=='L2_05': ref=0.
                else: ref=max(0,np.linalg.norm(g)-.7)
            if abs(sc-ref)>worst: worst=abs(sc-ref); arg=(r,g,sc,ref)
    print(type(pen).__name__,'worst',worst,arg)
gp=np.array([0,2],dtype=np.int32); gi=np.array([0,1],dtype=np.int32)
pj=cc(P.WeightedGroupL2(.7,np.array([1.5]),gp,gi,False)); worst=0
f=lambda r: float(pj.value(r.copy()))
for r in rows:
    for g in grads:
        sc=pj.subdiff_distance(r.copy(),g.copy(),np.array([0]))[0]
        ref=np.linalg.norm(g+numgrad(f,r)) if np.any(r) else max(0,np.linalg.norm(g)-.7*1.5)
        worst=max(worst,abs(sc-ref))
print('WGL2 nonpos worst',worst)
# positive: brute force projection via scipy
from scipy.optimize import minimize
pj=cc(P.WeightedGroupL2(.7,np.array([1.5]),gp,gi,True)); worst=0; arg=None
for r in rows:
    for g in grads:
        sc=pj.subdiff_distance(r.copy(),g.copy(),np.array([0]))[0]
        v=-g; rad=.7*1.5
        if (r<0).any(): ref=np.inf
        elif not r.any():
            ref=max(0,np.linalg.norm(np.maximum(v,0))-rad)
        else:
            base=rad*r/np.linalg.norm(r)
            # subdiff = base + N(r): N_j = (-inf,0] if r_j==0 else {0}
            d=v-base; ref=np.linalg.norm([max(d[j],0) if r[j]==0 else d[j] for j in range(2)])
        dd=abs(sc-ref) if np.isfinite(ref) or np.isfinite(sc) else 0
        if np.isinf(sc)!=np.isinf(ref): dd=np.inf
        if dd>worst: worst=dd; arg=(r,g,sc,ref)
print('WGL2 positive worst',worst,arg)
