import numpy as np, warnings
warnings.simplefilter('ignore')
import skglm.datafits as D, skglm.penalties as P, skglm.solvers as S
from skglm.utils.jit_compilation import compiled_clone as cc
X=np.array([[1.,2,0],[0,1,1],[1,0,1],[2,1,0],[-1,.5,1]],order='F'); y=np.array([1.,2,0,1,-1])+5
# ProxNewton obj history with intercept
w,obj,sc=S.ProxNewton(tol=1e-10,fit_intercept=True).solve(X,y,cc(D.Quadratic()),cc(P.L1(.1)))
true=((y-X@w[:3]-w[3])**2).sum()/10+.1*np.abs(w[:3]).sum()
print('PN obj last',obj[-1],'true',true,'w',w)
# AndersonCD
w,obj,sc=S.AndersonCD(tol=1e-10,fit_intercept=True).solve(X,y,cc(D.Quadratic()),cc(P.L1(.1)))
true=((y-X@w[:3]-w[3])**2).sum()/10+.1*np.abs(w[:3]).sum(); print('ACD obj last',obj[-1],'true',true)
# GroupBCD with intercept: penalty.value(w) w incl intercept
gp=np.array([0,2,3],dtype=np.int32); gi=np.array([0,1,2],dtype=np.int32)
w,obj,sc=S.GroupBCD(tol=1e-10,fit_intercept=True).solve(X,y,cc(D.QuadraticGroup(gp,gi)),cc(P.WeightedGroupL2(.1,np.ones(2),gp,gi)))
true=((y-X@w[:3]-w[3])**2).sum()/10+.1*(np.linalg.norm(w[:2])+abs(w[2])); print('GBCD obj',obj[:4],'true',true)
# MultiTask alpha_max with non-centred Y, alpha large: stops at 0?
Y=np.c_[y,y-3]
dm=cc(D.QuadraticMultiTask()); 
amax=np.sqrt(((X.T@Y/5)**2).sum(1)).max()
W,obj,sc=S.MultiTaskBCD(tol=1e-8,fit_intercept=True).solve(X,Y,dm,cc(P.L2_1(amax*1.01)))
print('MTBCD alpha>=||X^TY||/n: W',W.ravel(),'stop',sc,'mean Y',Y.mean(0))
Yc=Y-Y.mean(0); amaxc=np.sqrt(((X.T@Yc/5)**2).sum(1)).max(); print('amax nonc',amax,'amax centred',amaxc)
W,obj,sc=S.MultiTaskBCD(tol=1e-8,fit_intercept=True).solve(X,Y,cc(D.QuadraticMultiTask()),cc(P.L2_1(amaxc*1.01)))
print('MTBCD alpha=1.01 amax centred: W',np.round(W,4).ravel(),'stop',sc)
