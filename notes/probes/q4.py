# throwaway probe: datafit values/gradients vs documented loss (numerical derivative)
import numpy as np, warnings, scipy.sparse as sp, itertools
warnings.simplefilter('ignore')
import skglm.datafits as D
from skglm.utils.jit_compilation import compiled_clone as cc
def cox_ref(tm,s,u,efron):
    n=len(u); tot=0.
    if not efron:
        for i in range(n):
            if s[i]: tot+= -u[i]+np.log(sum(np.exp(u[j]) for j in range(n) if tm[j]>=tm[i]))
        return tot/n
    for t in np.unique(tm):
        H=[i for i in range(n) if s[i] and tm[i]==t]
        for k,i in enumerate(H):
            tot+= -u[i]+np.log(sum(np.exp(u[j]) for j in range(n) if tm[j]>=t) - k/len(H)*sum(np.exp(u[j]) for j in H))
    return tot/n
def loss(name,y,u,**kw):
    n=len(u)
    if name=='Quadratic' or name=='QuadraticGroup': return ((y-u)**2).sum()/(2*n)
    if name=='WeightedQuadratic': sw=kw['sw']; return (sw*(y-u)**2).sum()/(2*sw.sum())
    if name in('Logistic','LogisticGroup'): return np.log1p(np.exp(-y*u)).sum()/n
    if name=='Huber':
        d=kw['delta']; r=np.abs(y-u); return np.where(r<=d,.5*r**2,d*r-.5*d**2).sum()/n
    if name=='Poisson': return (np.exp(u)-y*u).sum()/n
    if name=='Gamma': return (u+y*np.exp(-u)-1-np.log(y)).sum()/n
def numgrad(f,u,h=1e-6):
    g=np.zeros_like(u)
    for i in range(len(u)):
        e=np.zeros_like(u); e[i]=h; g[i]=(f(u+e)-f(u-e))/(2*h)
    return g
X=np.array([[1.,2,0],[0,1,1],[1,0,1],[2,1,0],[-1,.5,1]],order='F'); Xs=sp.csc_matrix(X); w=np.array([.3,-.2,.5]); u=X@w
cases=[('Quadratic',D.Quadratic(),np.array([1.,2,0,1,-1]),{}),('WeightedQuadratic',D.WeightedQuadratic(np.array([1.,2,1,3,.5])),np.array([1.,2,0,1,-1]),{'sw':np.array([1.,2,1,3,.5])}),
 ('Logistic',D.Logistic(),np.array([1.,-1,1,1,-1]),{}),('Huber',D.Huber(.5),np.array([1.,2,0,1,-1]),{'delta':.5}),('Poisson',D.Poisson(),np.array([1.,2,0,1,3]),{}),('Gamma',D.Gamma(),np.array([1.,2,.5,1,3]),{})]
for name,d,y,kw in cases:
    dj=cc(d); dj.initialize(X,y)
    f=lambda uu: loss(name,y,uu,**kw)
    rg=numgrad(f,u); out=[name,'value',abs(dj.value(y,w,u)-f(u))]
    if hasattr(dj,'raw_grad'): out+=['raw_grad',np.abs(dj.raw_grad(y,u)-rg).max()]
    if hasattr(dj,'gradient_scalar'): out+=['grad_scalar',max(abs(dj.gradient_scalar(X,y,w,u,j)-X[:,j]@rg) for j in range(3))]
    if hasattr(dj,'gradient'): out+=['gradient',np.abs(dj.gradient(X,y,u)-X.T@rg).max()]
    if hasattr(dj,'intercept_update_step'): out+=['icpt_step/dFdb',dj.intercept_update_step(y,u)/rg.sum()]
    if hasattr(dj,'raw_hessian'):
        H=np.array([numgrad(lambda uu: numgrad(f,uu)[i],u,1e-4)[i] for i in range(5)]); out+=['raw_hess',np.abs(dj.raw_hessian(y,u)-H).max()]
    try:
        dj2=cc(d); dj2.initialize_sparse(Xs.data,Xs.indptr,Xs.indices,y)
        if hasattr(dj2,'full_grad_sparse'): out+=['full_grad_sparse',np.abs(dj2.full_grad_sparse(Xs.data,Xs.indptr,Xs.indices,y,u)-X.T@rg).max()]
        if hasattr(dj2,'gradient_scalar_sparse'): out+=['gs_sparse',max(abs(dj2.gradient_scalar_sparse(Xs.data,Xs.indptr,Xs.indices,y,u,j)-X[:,j]@rg) for j in range(3))]
    except Exception as e: out+=['sparse EXC',type(e).__name__]
    print(out)
# Cox exhaustive small
worst={}
for efron in (False,True):
    dj=cc(D.Cox(efron)); mx=0;mg=0;arg=None
    for tm in itertools.product([1.,2,3],repeat=4):
        for s in itertools.product([0.,1],repeat=4):
            y=np.c_[tm,s].astype(float); dj.initialize(X[:4],y); uu=u[:4]
            f=lambda z: cox_ref(np.array(tm),np.array(s),z,efron)
            dv=abs(dj.value(y,w,uu)-f(uu)); dg=np.abs(dj.raw_grad(y,uu)-numgrad(f,uu)).max()
            if dv>mx: mx=dv; arg=(tm,s)
            mg=max(mg,dg)
    print('Cox efron',efron,'max value err',mx,'max grad err',mg,arg)
