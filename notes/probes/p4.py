import numpy as np, warnings, scipy.sparse as sp, itertools, time
warnings.simplefilter('ignore')
import skglm.datafits as _d; globals().update({k:getattr(_d,k) for k in dir(_d) if k[0].isupper()})
import skglm.penalties as _p; globals().update({k:getattr(_p,k) for k in dir(_p) if k[0].isupper()})
import skglm.solvers as _s; globals().update({k:getattr(_s,k) for k in dir(_s) if k[0].isupper()})
from skglm.utils.jit_compilation import compiled_clone as cc
rng=np.random.RandomState(0)
n,p=6,5
X=np.asfortranarray(np.round(rng.randn(n,p)*2)/2); y=np.round(rng.randn(n)*2)/2
print(X,y)
t0=time.time(); nrun=0; bad=[]
for wts in itertools.product([0.,1.],repeat=p):
    wts=np.array(wts)
    if wts.sum()==0: continue
    for supp in itertools.product([0.,1.,-2.],repeat=p):
        w0=np.array(supp)
        for p0 in (1,2):
            for fi in (False,):
                for me in (6,7,13):
                    pen=cc(WeightedL1(.2,wts)); d=cc(Quadratic())
                    w=np.r_[w0,0.] if fi else w0.copy()
                    Xw=X@w0
                    s=AndersonCD(max_iter=3,max_epochs=me,p0=p0,tol=1e-9,fit_intercept=fi)
                    w_,obj,sc=s.solve(X,y,d,pen,w,Xw)
                    nrun+=1
                    err=np.abs(Xw-(X@w_[:p]+(w_[-1] if fi else 0))).max()
                    if err>1e-8: bad.append((wts,w0,p0,me,err))
print(nrun,'runs',time.time()-t0,'s; bad',len(bad)); print(bad[:5])
