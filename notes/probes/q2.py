import numpy as np
from skglm.utils.prox_funcs import prox_log_sum, _find_root_by_bisection, _r, _r2
al,eps=.7*1.9,.3
a=2*np.sqrt(al)-eps; b=al/eps
print(a,b,_r(a,al,eps),_r(b,al,eps), _find_root_by_bisection(a,b,al,eps))
for x in [2.,2.5,3.,3.5,4.,4.4,4.5,5.]: print(x, prox_log_sum(x,al,eps))
