import numpy as np, warnings, scipy.sparse as sp, traceback, itertools, time
warnings.simplefilter('ignore')
import skglm.datafits as _d; globals().update({k:getattr(_d,k) for k in dir(_d) if k[0].isupper()})
import skglm.penalties as _p; globals().update({k:getattr(_p,k) for k in dir(_p) if k[0].isupper()})
import skglm.solvers as _s; globals().update({k:getattr(_s,k) for k in dir(_s) if k[0].isupper()})
from skglm.utils.jit_compilation import compiled_clone as cc
def tr(name, f):
    try:
        r=f(); print(name, '->', str(r)[:300].replace(chr(10),' '))
    except BaseException as e:
        print(name, 'EXC', type(e).__name__, str(e).split('\n')[0][:160])
X=np.array([[1.,2,0],[0,1,1],[1,0,1],[2,1,0]],order='F'); y=np.array([1.,1,-1,1]); Xs=sp.csc_matrix(X)
gp=np.array([0,2,3],dtype=np.int32); gi=np.array([0,1,2],dtype=np.int32)
dl=cc(LogisticGroup(gp,gi)); dl.initialize(X,y); p=cc(WeightedGroupL2(.01,np.ones(2),gp,gi))
tr('GroupPN nointercept', lambda: GroupProxNewton(tol=1e-8,fit_intercept=False).solve(X,y,dl,p))
tr('GroupPN intercept', lambda: GroupProxNewton(tol=1e-8,fit_intercept=True).solve(X,y,dl,p))
tr('GroupBCD logistic', lambda: GroupBCD(tol=1e-8,fit_intercept=False).solve(X,y,dl,p))
