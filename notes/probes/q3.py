# throwaway probe: subdiff_distance vs numerically derived regular subdifferential (1-D penalties)
import numpy as np, warnings
warnings.simplefilter('ignore')
import skglm.penalties as P
from skglm.utils.jit_compilation import compiled_clone as cc
from q1 import val
def onesided(pen,w,pos):
    h=1e-7
    f=lambda u: float(val(pen,np.array([u]))[0])
    dm=(f(w)-f(w-h))/h; dp=(f(w+h)-f(w))/h
    if w==0 and type(pen).__name__ in('L0_5','L2_3'): dm,dp=-np.inf,np.inf
    if pos:
        if w<0: return None
        if w==0: dm=-np.inf
    if type(pen).__name__=='IndicatorBox':
        a=pen.alpha
        if w<0 or w>a: return None
        dm,dp=0.,0.
        if w==0: dm=-np.inf
        if w==a: dp=np.inf
    if type(pen).__name__=='PositiveConstraint':
        if w<0: return None
        dm,dp=(-np.inf if w==0 else 0.),0.
    return dm,dp
def dist(v,iv):
    if iv is None: return np.inf
    lo,hi=iv
    if lo>hi+1e-5: return np.inf   # empty regular subdiff (concave kink)
    return max(0,lo-v,v-hi)
pens=[P.L1(.7),P.L1(.7,True),P.L1_plus_L2(.7,.4),P.L1_plus_L2(.7,.4,True),P.MCPenalty(.7,3.),P.MCPenalty(.7,3.,True),P.SCAD(.7,3.),P.L0_5(.7),P.L2_3(.7),P.LogSumPenalty(.7,.3),P.IndicatorBox(.7),P.PositiveConstraint()]
ws=[-3.,-2.1,-1.,-.7,-.3,0.,.3,.7,1.,2.1,3.]
gs=np.linspace(-3,3,25)
for pen in pens:
    pj=cc(pen); pos=getattr(pen,'positive',False); worst=0; wi=None
    for w in ws:
        iv=onesided(pen,w,pos)
        for g in gs:
            sc=pj.subdiff_distance(np.array([w]),np.array([g]),np.array([0]))[0]
            ref=dist(-g,iv)
            d=abs(sc-ref) if np.isfinite(sc) or np.isfinite(ref) else 0
            if np.isinf(sc)!=np.isinf(ref): d=np.inf
            if d>worst: worst=d; wi=(w,g,sc,ref)
    print(type(pen).__name__,pos,'worst',worst,wi)
