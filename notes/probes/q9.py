import numpy as np, warnings, itertools, time, collections
warnings.simplefilter('ignore')
import skglm.datafits as D, skglm.penalties as P, skglm.solvers as S
from skglm.experimental import PDCD_WS, SqrtQuadratic, Pinball
from skglm.utils.jit_compilation import compiled_clone as cc
from sklearn.linear_model import Lasso
vals=[-1.,0.,1.]
designs=[np.asfortranarray(np.array(c,dtype=float).reshape(4,2)) for c in itertools.product(vals,repeat=8)][::5]
def cert(X,y,w,alpha):
    g=X.T@(X@w-y)/len(y); v=0.
    for j in range(len(w)): v=max(v, max(0,abs(g[j])-alpha) if w[j]==0 else abs(g[j]+np.sign(w[j])*alpha))
    return v
def obj(X,y,w,alpha): return ((X@w-y)**2).sum()/(2*len(y))+alpha*np.abs(w).sum()
d=cc(D.Quadratic()); ratios=[]; gaps=[]; n=0; nconv=0
ys=[np.array([1.,-1,2,0]),np.array([2.,-1,.5,1])]
for X in designs:
    if (X==0).all(0).any(): continue
    for y in ys:
        for alpha in (.05,.3):
            for tol in (1e-4,1e-8):
                w,o,sc=S.FISTA(max_iter=20000,tol=tol).solve(X,y,d,cc(P.L1(alpha))); n+=1
                if sc<tol:
                    nconv+=1; c=cert(X,y,w,alpha); ratios.append(c/tol)
                    v=Lasso(alpha=alpha,fit_intercept=False,tol=1e-14,max_iter=100000).fit(X,y).coef_
                    gaps.append((obj(X,y,w,alpha)-obj(X,y,v,alpha))/(tol*(np.abs(w-v).sum()+1e-300)))
print(n,nconv,'true viol / tol: max',max(ratios),'p99',np.percentile(ratios,99))
gaps=np.array(gaps); print('gap/(tol*l1dist) max', gaps[np.isfinite(gaps)].max())
