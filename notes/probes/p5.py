import numpy as np, warnings
warnings.simplefilter('ignore')
import sklearn.base
from sklearn.utils.validation import validate_data
from skglm import CoxEstimator
from skglm.datafits import Cox
from skglm.utils.jit_compilation import compiled_clone as cc
X=np.array([[1.,2,0],[0,1,1],[1,0,1],[2,1,0],[1,1,1]],order='F')
yy=np.c_[[1.,2,2,3,2],[1,1,1,1,0]]
for meth in ['efron','breslow']:
    c=CoxEstimator(0.01,1.,meth).fit(X,yy); print('cox',meth,c.coef_)
for ue in [True,False]:
    d=cc(Cox(ue)); d.initialize(X,yy); print(ue, d.value(yy,np.zeros(3),np.array([.1,.2,-.1,.3,0.])))
d=cc(Cox("breslow")); print('use_efron of Cox("breslow") =', d.use_efron)
