"""Worker-side construction of real skglm objects from JSON-able specs (imports skglm)."""
import numpy as np
import scipy.sparse as sp
from numba import njit

import skglm.datafits as D
import skglm.penalties as Pn
import skglm.solvers as S
from skglm.experimental.pdcd_ws import PDCD_WS
from skglm.experimental.quantile_regression import Pinball
from skglm.experimental.sqrt_lasso import SqrtQuadratic
from skglm.utils.jit_compilation import compiled_clone


@njit
def _seed(s):
    np.random.seed(s)


def seed_numba(s):
    _seed(int(s) & 0x7FFFFFFF)
    np.random.seed(int(s) & 0x7FFFFFFF)


def _f(a):
    return np.asarray(a, dtype=np.float64)


def _i(a):
    return np.asarray(a, dtype=np.int32)


def penalty_raw(spec):
    n = spec["name"]
    a = spec.get("alpha")
    pos = bool(spec.get("positive", False))
    if n == "L1":
        return Pn.L1(a, pos)
    if n == "L1_plus_L2":
        return Pn.L1_plus_L2(a, spec["l1_ratio"], pos)
    if n == "WeightedL1":
        return Pn.WeightedL1(a, _f(spec["weights"]), pos)
    if n == "MCPenalty":
        return Pn.MCPenalty(a, spec["gamma"], pos)
    if n == "WeightedMCPenalty":
        return Pn.WeightedMCPenalty(a, spec["gamma"], _f(spec["weights"]), pos)
    if n == "SCAD":
        return Pn.SCAD(a, spec["gamma"])
    if n == "IndicatorBox":
        return Pn.IndicatorBox(a)
    if n == "L0_5":
        return Pn.L0_5(a)
    if n == "L2_3":
        return Pn.L2_3(a)
    if n == "LogSumPenalty":
        return Pn.LogSumPenalty(a, spec["eps"])
    if n == "PositiveConstraint":
        return Pn.PositiveConstraint()
    if n == "L2":
        return Pn.L2(a)
    if n == "L2_1":
        return Pn.L2_1(a)
    if n == "L2_05":
        return Pn.L2_05(a)
    if n == "BlockMCPenalty":
        return Pn.BlockMCPenalty(a, spec["gamma"])
    if n == "BlockSCAD":
        return Pn.BlockSCAD(a, spec["gamma"])
    if n == "WeightedGroupL2":
        return Pn.WeightedGroupL2(a, _f(spec["weights"]), _i(spec["grp_ptr"]), _i(spec["grp_indices"]),
                                  pos)
    if n == "WeightedL1GroupL2":
        return Pn.WeightedL1GroupL2(a, _f(spec["weights_groups"]), _f(spec["weights_features"]),
                                    _i(spec["grp_ptr"]), _i(spec["grp_indices"]))
    if n == "SLOPE":
        return Pn.SLOPE(_f(spec["alphas"]))
    raise KeyError(n)


def penalty(spec):
    return compiled_clone(penalty_raw(spec))


def datafit_raw(spec):
    if spec is None:
        return None
    n = spec["name"]
    if n == "Quadratic":
        return D.Quadratic()
    if n == "WeightedQuadratic":
        return D.WeightedQuadratic(_f(spec["sample_weights"]))
    if n == "Logistic":
        return D.Logistic()
    if n == "QuadraticSVC":
        return D.QuadraticSVC()
    if n == "Huber":
        return D.Huber(spec["delta"])
    if n == "Poisson":
        return D.Poisson()
    if n == "Gamma":
        return D.Gamma()
    if n == "Cox":
        return D.Cox(bool(spec.get("use_efron", False)))
    if n == "QuadraticGroup":
        return D.QuadraticGroup(_i(spec["grp_ptr"]), _i(spec["grp_indices"]))
    if n == "LogisticGroup":
        return D.LogisticGroup(_i(spec["grp_ptr"]), _i(spec["grp_indices"]))
    if n == "QuadraticMultiTask":
        return D.QuadraticMultiTask()
    if n == "SqrtQuadratic":
        return SqrtQuadratic()
    if n == "Pinball":
        return Pinball(spec["quantile_level"])
    raise KeyError(n)


def datafit(spec):
    d = datafit_raw(spec)
    return None if d is None else compiled_clone(d)


SOLVERS = dict(AndersonCD=S.AndersonCD, ProxNewton=S.ProxNewton, GroupBCD=S.GroupBCD,
               GroupProxNewton=S.GroupProxNewton, MultiTaskBCD=S.MultiTaskBCD, GramCD=S.GramCD,
               FISTA=S.FISTA, LBFGS=S.LBFGS, PDCD_WS=PDCD_WS)


def solver(spec):
    kw = dict(spec.get("kw", {}))
    return SOLVERS[spec["name"]](**kw)


def storage(X, kind):
    """kind: denseF | denseC | csc | csc64 | csc_unsorted | csc_zeros"""
    X = np.asarray(X, dtype=np.float64)
    if kind == "denseF":
        return np.asfortranarray(X)
    if kind == "denseC":
        return np.ascontiguousarray(X)
    if kind == "csc_zeros":                       # every entry stored, zeros included (what X.multiply(mask) / X[:, j] = 0 leave behind)
        M = sp.csc_matrix(np.ones_like(X))
        M.data = np.asfortranarray(X).ravel(order="F").copy()
        return M
    M = sp.csc_matrix(X)
    if kind == "csc":
        return M
    if kind == "csc64":
        M.indices = M.indices.astype(np.int64)
        M.indptr = M.indptr.astype(np.int64)
        return M
    if kind == "csc_unsorted":
        for j in range(M.shape[1]):
            a, b = M.indptr[j], M.indptr[j + 1]
            M.indices[a:b] = M.indices[a:b][::-1].copy()
            M.data[a:b] = M.data[a:b][::-1].copy()
        M.has_sorted_indices = False
        return M
    raise KeyError(kind)
