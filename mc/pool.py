"""Self-managed worker pool (Popen + pipes).  A dead or runaway worker is an *observation*."""
import json
import os
import queue
import subprocess
import sys
import threading
import time

ROOT = os.path.dirname(os.path.dirname(os.path.abspath(__file__)))
PY = os.environ.get("VERIF_PYTHON", "/venv/bin/python")
CLK = os.sysconf("SC_CLK_TCK")


def _cpu_seconds(pid):
    try:
        with open(f"/proc/{pid}/stat") as f:
            parts = f.read().rsplit(")", 1)[1].split()
        return (int(parts[11]) + int(parts[12])) / CLK
    except Exception:
        return None


class Worker:
    def __init__(self, driver, extra_env=None):
        env = dict(os.environ)
        env.update(OMP_NUM_THREADS="1", OPENBLAS_NUM_THREADS="1", MKL_NUM_THREADS="1",
                   NUMBA_NUM_THREADS="1", PYTHONHASHSEED="0", PYTHONPATH=ROOT)
        env.setdefault("VERIF_REPO", "/repo")
        env.setdefault("VERIF_SEED", "0")
        if extra_env:
            env.update(extra_env)
        self.driver = driver
        self.p = subprocess.Popen([PY, "-m", "mc.worker", driver], stdin=subprocess.PIPE,
                                  stdout=subprocess.PIPE, stderr=subprocess.DEVNULL
                                  if not os.environ.get("VERIF_DEBUG") else None,
                                  env=env, cwd=ROOT, text=True, bufsize=1)
        self.q = queue.Queue()
        self.t = threading.Thread(target=self._reader, daemon=True)
        self.t.start()
        msg = self.recv(wall=300)
        if not msg or not msg.get("ready"):
            raise RuntimeError(f"worker failed to start: {msg}")
        self.info = msg

    def _reader(self):
        for line in self.p.stdout:
            try:
                self.q.put(json.loads(line))
            except Exception:
                self.q.put({"error": "unparsable worker line: " + line[:200]})
        self.q.put(None)

    def send(self, obj):
        try:
            self.p.stdin.write(json.dumps(obj) + "\n")
            self.p.stdin.flush()
        except (BrokenPipeError, OSError):
            pass

    def recv(self, wall=None, cpu_limit=None):
        """Next message; {'dead': rc} if the process ended; {'timeout': cpu} if CPU budget exceeded."""
        t0 = time.time()
        cpu0 = _cpu_seconds(self.p.pid) or 0.0
        while True:
            try:
                m = self.q.get(timeout=0.5)
            except queue.Empty:
                if cpu_limit is not None:
                    c = _cpu_seconds(self.p.pid)
                    if c is not None and c - cpu0 > cpu_limit:
                        self.kill()
                        return {"timeout": c - cpu0}
                if wall is not None and time.time() - t0 > wall:
                    self.kill()
                    return {"timeout": -1.0}
                continue
            if m is None:
                self.p.wait()
                return {"dead": self.p.returncode}
            return m

    def kill(self):
        try:
            self.p.kill()
            self.p.wait(timeout=10)
        except Exception:
            pass

    def close(self):
        self.send({"cmd": "exit"})
        try:
            self.p.wait(timeout=5)
        except Exception:
            self.kill()


def merge_partial(agg, part, task_index):
    agg["evals"] += part["evals"]
    agg["hashes"].update(part["hashes"])
    agg["states"] += part.get("states", 0)
    agg["transitions"] += part.get("transitions", 0)
    agg.setdefault("records", {}).update(part.get("records", {}))
    for k, v in part["counters"].items():
        agg["counters"][k] = agg["counters"].get(k, 0) + v
    for v in part["viol"]:
        key = json.dumps([v["site"], v["kind"], v["where"]], sort_keys=True)
        rank = (task_index, v["rank"])
        e = agg["viol"].get(key)
        if e is None:
            v = dict(v)
            v["rank"] = rank
            agg["viol"][key] = v
        else:
            e["count"] += v["count"]
            if rank < tuple(e["rank"]):
                cnt = e["count"]
                e.update(v)
                e["rank"] = rank
                e["count"] = cnt
    if len(agg["samples"]) < 6:
        agg["samples"].extend(part["samples"][: 6 - len(agg["samples"])])


def new_agg():
    return dict(evals=0, hashes=set(), counters={}, viol={}, samples=[], states=0,
                transitions=0, errors=[], deaths=[], task_cpu={})


def run_tasks(driver_name, driver_mod, tasks, n_workers=None, extra_env=None, log=None):
    """Run tasks on a pool.  Tasks with track=True stream checkpoints so that the cell in flight
    when a worker dies / exceeds its CPU horizon is known and recorded through driver.on_abort."""
    n_workers = n_workers or min(int(os.environ.get("VERIF_WORKERS", "16")), max(1, len(tasks)))
    agg = new_agg()
    lock = threading.Lock()
    tq = queue.Queue()
    order = sorted(range(len(tasks)), key=lambda i: -tasks[i].get("weight", 1))
    for i in order:
        tq.put((i, tasks[i], 0))
    t_start = time.time()

    def loop():
        w = None
        while True:
            try:
                i, task, start = tq.get_nowait()
            except queue.Empty:
                break
            try:
                if w is None:
                    w = Worker(driver_name, dict(extra_env or {}, **task.get("env", {})))
                elif task.get("env") and task["env"] != getattr(w, "task_env", None):
                    w.close()
                    w = Worker(driver_name, dict(extra_env or {}, **task["env"]))
                w.task_env = task.get("env")
            except Exception as e:
                with lock:
                    agg["errors"].append(f"worker start: {e}")
                break
            t = dict(task, start=start)
            w.send({"cmd": "run", "task": t})
            last = start - 1
            first_msg = True
            while True:
                limit = task.get("cpu_limit", 900)
                if first_msg:
                    limit += task.get("compile_allowance", 240)
                m = w.recv(cpu_limit=limit)
                first_msg = False
                if "ckpt" in m:
                    last = m["ckpt"]
                    with lock:
                        merge_partial(agg, m["partial"], i)
                    continue
                if "done" in m:
                    with lock:
                        merge_partial(agg, m["partial"], i)
                        agg["task_cpu"][task.get("id", str(i))] = m.get("cpu_s")
                    break
                if "error" in m:
                    with lock:
                        agg["errors"].append(f"task {task.get('id', i)}: {m['error']}")
                    break
                # dead or timeout
                status = "timeout" if "timeout" in m else "died"
                detail = m.get("timeout", m.get("dead"))
                w = None
                if task.get("track") and hasattr(driver_mod, "on_abort") and last >= start:
                    from mc.core import Ctx
                    ctx = Ctx(driver_mod.PROPERTY, driver_name, task.get("tier", "quick"))
                    driver_mod.on_abort(task, last, status, detail, ctx)
                    with lock:
                        merge_partial(agg, ctx.dump(), i)
                        agg["deaths"].append(dict(task=task.get("id", i), cell=last, status=status,
                                                  detail=detail))
                    tq.put((i, task, last + 1))
                else:
                    with lock:
                        agg["errors"].append(
                            f"task {task.get('id', i)}: worker {status} ({detail}) "
                            f"outside a tracked cell (last ckpt {last})")
                break
        if w is not None:
            w.close()

    threads = [threading.Thread(target=loop) for _ in range(n_workers)]
    for t in threads:
        t.start()
    for t in threads:
        t.join()
    agg["wall_s"] = time.time() - t_start
    return agg


def replay_once(driver_name, params, extra_env=None):
    w = Worker(driver_name, extra_env)
    try:
        w.send({"cmd": "replay", "params": params})
        m = w.recv(cpu_limit=900)
        return m
    finally:
        if w.p.poll() is None:
            w.close()
