"""Worker-side accumulator, hashing and number formatting shared by all drivers."""
import hashlib
import json
import os
import zlib
from collections import Counter

import numpy as np

SEED = int(os.environ.get("VERIF_SEED", "0") or 0)


def fhex(x):
    """Bit-exact, JSON-able form of floats / arrays (used for replay determinism)."""
    if isinstance(x, (list, tuple)):
        return [fhex(v) for v in x]
    if isinstance(x, dict):
        return {k: fhex(v) for k, v in x.items()}
    if isinstance(x, np.ndarray):
        if x.dtype.kind == "f":
            return [fhex(v) for v in x.tolist()]
        return x.tolist()
    if isinstance(x, (float, np.floating)):
        return float(x).hex()
    if isinstance(x, (np.integer,)):
        return int(x)
    if isinstance(x, (np.bool_,)):
        return bool(x)
    return x


def jsonable(x):
    """Human-readable JSON-able form (floats as floats, nan/inf as strings)."""
    if isinstance(x, dict):
        return {str(k): jsonable(v) for k, v in x.items()}
    if isinstance(x, (list, tuple)):
        return [jsonable(v) for v in x]
    if isinstance(x, np.ndarray):
        return jsonable(x.tolist())
    if isinstance(x, (np.bool_,)):
        return bool(x)
    if isinstance(x, (np.integer,)):
        return int(x)
    if isinstance(x, (float, np.floating)):
        x = float(x)
        if x != x or x in (float("inf"), float("-inf")):
            return repr(x)
        return x
    return x


def _feed(h, v):
    if isinstance(v, np.ndarray):
        h.update(str(v.dtype).encode())
        h.update(str(v.shape).encode())
        h.update(np.ascontiguousarray(v).tobytes())
    elif isinstance(v, (float, np.floating)):
        h.update(np.float64(v).tobytes())
    elif isinstance(v, (list, tuple)):
        h.update(b"[")
        for u in v:
            _feed(h, u)
        h.update(b"]")
    elif isinstance(v, dict):
        for k in sorted(v):
            h.update(str(k).encode())
            _feed(h, v[k])
    else:
        h.update(repr(v).encode())


def ohash(*vals):
    h = hashlib.blake2b(digest_size=8)
    for v in vals:
        _feed(h, v)
    return int.from_bytes(h.digest(), "big")


def derive_seed(*parts):
    """RNG seed for one operation: function of VERIF_SEED and the operation's parameters only."""
    s = json.dumps(jsonable(parts), sort_keys=True, default=str).encode()
    return (SEED * 1000003 + zlib.crc32(s)) & 0x7FFFFFFF


class Ctx:
    """Accumulates what one task explored.  Dumped to the parent as a 'partial'."""

    MAX_SAMPLES = 3

    def __init__(self, prop, driver, tier):
        self.prop, self.driver, self.tier = prop, driver, tier
        self.reset()

    def reset(self):
        self.evals = 0
        self.hashes = set()
        self.counters = Counter()
        self.viol = {}
        self.samples = []
        self.states = 0
        self.transitions = 0
        self.records = {}
        self._n = 0

    def obs(self, *vals, nontrivial=True, n=1):
        """Record one execution and (if non-trivial) the hash of its observation."""
        self.evals += n
        if nontrivial:
            self.hashes.add(ohash(*vals))

    def count(self, key, n=1):
        self.counters[key] += n

    def sample(self, s):
        if len(self.samples) < self.MAX_SAMPLES:
            self.samples.append(jsonable(s))

    def violation(self, site, kind, params, observed=None, expected=None, where=None,
                  rank=None):
        where = jsonable(where or {})
        key = json.dumps([site, kind, where], sort_keys=True)
        self._n += 1
        rank = self._n if rank is None else rank
        e = self.viol.get(key)
        if e is None:
            self.viol[key] = dict(site=site, kind=kind, where=where, count=1, rank=rank,
                                  params=jsonable(params), observed=jsonable(observed),
                                  expected=jsonable(expected))
        else:
            e["count"] += 1

    def record(self, key, value):
        """Keyed observation kept by the parent for cross-task comparisons (driver.post)."""
        self.records[key] = jsonable(value)

    def dump(self):
        d = dict(evals=self.evals, hashes=list(self.hashes), counters=dict(self.counters),
                 viol=list(self.viol.values()), samples=self.samples,
                 states=self.states, transitions=self.transitions, records=self.records)
        self.reset()
        return d
