"""Worker-side estimator helpers: build / fit skglm estimators from specs, and the *documented* problem each solves."""
import warnings

import numpy as np
import scipy.sparse as sp

from mc.ref import cert as RC


def make(spec):
    import skglm
    from skglm.experimental.sqrt_lasso import SqrtLasso
    name, kw = spec["name"], dict(spec.get("kw", {}))
    if "weights" in kw and kw["weights"] is not None:
        kw["weights"] = np.asarray(kw["weights"], dtype=float)
    if name == "SqrtLasso":
        return SqrtLasso(**kw)
    return getattr(skglm, name)(**kw)


def container(X, kind):
    X = np.asarray(X, dtype=float)
    if kind == "ndarray":
        return X.copy()
    if kind == "fortran":
        return np.asfortranarray(X)
    if kind == "list":
        return X.tolist()
    if kind == "csr":
        return sp.csr_matrix(X)
    if kind == "csc":
        return sp.csc_matrix(X)
    if kind == "float32":
        return X.astype(np.float32)
    if kind == "csc32":
        return sp.csc_matrix(X.astype(np.float32))
    raise KeyError(kind)


def groups_to_layout(groups, p):
    if isinstance(groups, int):
        ptr = list(range(0, p + 1, groups))
        return ptr, list(range(p))
    if isinstance(groups[0], int):
        ptr = [0]
        for g in groups:
            ptr.append(ptr[-1] + g)
        return ptr, list(range(p))
    ptr, ind = [0], []
    for g in groups:
        ind += list(g)
        ptr.append(len(ind))
    return ptr, ind


def documented_problem(spec, X, y):
    """Reference problem written from the estimator's docstring (objective, meaning of every argument)."""
    name, kw = spec["name"], spec.get("kw", {})
    X = np.asarray(X, dtype=float)
    y = np.asarray(y, dtype=float)
    p = X.shape[1]
    a = kw.get("alpha", 1.0)
    pos = bool(kw.get("positive", False))
    fi = bool(kw.get("fit_intercept", True))
    if name == "Lasso":
        return dict(datafit=dict(name="Quadratic"), penalty=dict(name="L1", alpha=a, positive=pos), X=X, y=y, fit_intercept=fi)
    if name == "WeightedLasso":
        w = kw.get("weights")
        pen = dict(name="L1", alpha=a, positive=pos) if w is None else dict(name="WeightedL1", alpha=a, weights=list(w), positive=pos)
        return dict(datafit=dict(name="Quadratic"), penalty=pen, X=X, y=y, fit_intercept=fi)
    if name == "ElasticNet":
        return dict(datafit=dict(name="Quadratic"), penalty=dict(name="L1_plus_L2", alpha=a, l1_ratio=kw.get("l1_ratio", 0.5), positive=pos),
                    X=X, y=y, fit_intercept=fi)
    if name == "MCPRegression":
        w = kw.get("weights")
        g = kw.get("gamma", 3)
        pen = dict(name="MCPenalty", alpha=a, gamma=g, positive=pos) if w is None else \
            dict(name="WeightedMCPenalty", alpha=a, gamma=g, weights=list(w), positive=pos)
        return dict(datafit=dict(name="Quadratic"), penalty=pen, X=X, y=y, fit_intercept=fi)
    if name == "GroupLasso":
        ptr, ind = groups_to_layout(kw["groups"], p)
        w = kw.get("weights")
        w = [1.0] * (len(ptr) - 1) if w is None else list(w)
        return dict(datafit=dict(name="QuadraticGroup", grp_ptr=ptr, grp_indices=ind),
                    penalty=dict(name="WeightedGroupL2", alpha=a, weights=w, grp_ptr=ptr, grp_indices=ind, positive=pos),
                    X=X, y=y, fit_intercept=fi)
    if name == "MultiTaskLasso":
        return dict(datafit=dict(name="QuadraticMultiTask"), penalty=dict(name="L2_1", alpha=a), X=X, y=y, fit_intercept=fi)
    if name == "SparseLogisticRegression":
        return dict(datafit=dict(name="Logistic"), penalty=dict(name="L1", alpha=a, positive=False), X=X, y=y, fit_intercept=fi)
    if name == "LinearSVC":           # dual problem in the sample weights; documented primal relation checked separately
        return dict(datafit=dict(name="QuadraticSVC"), penalty=dict(name="IndicatorBox", alpha=kw.get("C", 1.0)),
                    X=(X * y[:, None]).T, y=y, fit_intercept=False)
    if name == "CoxEstimator":
        r = kw.get("l1_ratio", 0.7)
        pen = dict(name="L1", alpha=a, positive=False) if r == 1.0 else (
            dict(name="L2", alpha=a) if r == 0.0 else dict(name="L1_plus_L2", alpha=a, l1_ratio=r, positive=False))
        return dict(datafit=dict(name="Cox", use_efron=kw.get("method", "efron") == "efron"), penalty=pen, X=X, y=y, fit_intercept=False)
    if name == "SqrtLasso":
        return dict(datafit=dict(name="SqrtQuadratic"), penalty=dict(name="L1", alpha=a, positive=False), X=X, y=y, fit_intercept=False)
    raise KeyError(name)


def fitted_w(spec, est):
    """Solver-style coefficient vector (coef [+ intercept]) of a fitted estimator, matching documented_problem."""
    name = spec["name"]
    fi = bool(spec.get("kw", {}).get("fit_intercept", True))
    if name == "LinearSVC":
        return np.asarray(est.dual_coef_, dtype=float).ravel()
    if name == "MultiTaskLasso":
        W = np.asarray(est.coef_, dtype=float).T
        return np.vstack([W, np.atleast_2d(est.intercept_)]) if fi else W
    coef = np.asarray(est.coef_, dtype=float).ravel()
    if name in ("CoxEstimator", "SqrtLasso"):
        return coef
    return np.append(coef, float(np.ravel(est.intercept_)[0])) if fi else coef


def violation(spec, X, y, est, strategy="subdiff"):
    prob = documented_problem(spec, X, y)
    w = fitted_w(spec, est)
    kind = "pn" if spec["name"] in ("SparseLogisticRegression", "CoxEstimator", "SqrtLasso") else "cd"
    return RC.violation(prob, w, strategy, kind), RC.objective(prob, w), prob, w


def gap_ok(prob, w, v, slack=1e-9):
    """Convexity theorem: F(w) - F(v) <= viol(w) * ||w - v||_1 (intercept included).  Returns (ok, gap, bound)."""
    (nu, _) = RC.violation(prob, w)
    Fw, Fv = RC.objective(prob, w), RC.objective(prob, v)
    d = float(np.sum(np.abs(np.asarray(w) - np.asarray(v))))
    bound = nu * d + slack * (1 + abs(Fv))
    return (Fw - Fv) <= bound, Fw - Fv, bound


def fit(spec, X, y, xkind="ndarray"):
    est = make(spec)
    with warnings.catch_warnings():
        warnings.simplefilter("ignore")
        est.fit(container(X, xkind), np.asarray(y, dtype=float) if not isinstance(y, list) or True else y)
    return est
