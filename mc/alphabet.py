"""Finite alphabets shared by the drivers (DESIGN §2.1).  Entries are exact in binary."""
import itertools

import numpy as np


def T(n, p):
    """All matrices in {-1,0,1}^(n x p), simplest first."""
    vals = (0.0, 1.0, -1.0)
    for flat in itertools.product(vals, repeat=n * p):
        yield np.array(flat, dtype=float).reshape(n, p)


def T_orbits(n, p):
    """One representative per orbit of T(n,p) under row permutations and global sign."""
    seen = set()
    for X in T(n, p):
        keys = []
        for sg in (1.0, -1.0):
            Y = sg * X
            rows = sorted(map(tuple, Y.tolist()))
            keys.append(tuple(rows))
        k = min(keys)
        if k in seen:
            continue
        seen.add(k)
        yield X


G_TALL = np.array([[1., 2., 0.], [0., 1., 1.], [1., 0., 1.], [2., 1., 0.], [-1., .5, 1.], [.5, -1., 2.]])
G_WIDE = np.array([[1., 0., 2., -1., .5], [0., 1., -1., 2., 1.], [2., -1., 0., 1., -.5]])
G_SQ = np.array([[2., 1., 0., -1.], [1., 2., 1., 0.], [0., 1., 2., 1.], [-1., 0., 1., 2.]])
G = {"tall6x3": G_TALL, "wide3x5": G_WIDE, "sq4x4": G_SQ}


def with_zero_col(X, pos):
    X = X.copy()
    X[:, pos] = 0.0
    return X


def Z():
    out = {}
    for name, X in G.items():
        p = X.shape[1]
        for tag, pos in (("first", 0), ("mid", p // 2), ("last", p - 1)):
            out[f"{name}-zero{tag}"] = with_zero_col(X, pos)
    return out


def K():
    X = G_TALL
    dup = X.copy(); dup[:, 2] = dup[:, 0]
    opp = X.copy(); opp[:, 2] = -opp[:, 0]
    lin = X.copy(); lin[:, 2] = lin[:, 0] + lin[:, 1]
    cst = X.copy(); cst[:, 1] = 1.0
    return {"dup": dup, "opp": opp, "lincomb": lin, "const": cst}


def S():
    sc = np.array([2.0 ** -10, 1.0, 2.0 ** 10])
    return {"scaled-tall": G_TALL * sc, "scaled-sq": G_SQ * np.array([2.0 ** 10, 1.0, 2.0 ** -10, 1.0])}


def O():
    H4 = np.array([[1., 1., 1., 1.], [1., -1., 1., -1.], [1., 1., -1., -1.], [1., -1., -1., 1.]])
    return {"hadamard4x3": H4[:, 1:], "hadamard4x4-scaled": H4 * np.array([1., 2., .5, 1.]),
            "ident4x2": np.vstack([2 * np.eye(2), np.zeros((2, 2))])}


def ONE():
    return {"1feat": np.array([[1.], [2.], [-1.], [.5]]), "2samp": np.array([[1., 2.], [-1., 1.]])}


def reg_targets(X):
    n = X.shape[0]
    base = np.array([1., -2., .5, 3., -1., 2., .25, -.5])[:n]
    gen2 = np.array([2., 1., -1., .5, 3., -2., 1., 0.])[:n]
    return {"generic": base, "generic2": gen2, "zero": np.zeros(n), "const": np.full(n, 2.0),
            "col0": X[:, 0].copy(), "shifted": base + 5.0}


def sign_patterns(n, skip_constant=True):
    for s in itertools.product((1.0, -1.0), repeat=n):
        if skip_constant and len(set(s)) == 1:
            continue
        yield np.array(s)


def survival_targets(n):
    for tm in itertools.product((1.0, 2.0, 3.0), repeat=n):
        for s in itertools.product((0.0, 1.0), repeat=n):
            yield np.column_stack([tm, s]).astype(float)


def w_points(p, vals=(-1.0, 0.0, 0.5, 2.0)):
    for w in itertools.product(vals, repeat=p):
        yield np.array(w)


GROUP_LAYOUTS = {
    3: {"one": ([0, 3], [0, 1, 2]), "single": ([0, 1, 2, 3], [0, 1, 2]), "uneq": ([0, 2, 3], [0, 1, 2]),
        "rev": ([0, 1, 3], [2, 1, 0]), "inter": ([0, 2, 3], [0, 2, 1])},
    4: {"eq": ([0, 2, 4], [0, 1, 2, 3]), "inter": ([0, 2, 4], [0, 2, 1, 3]), "rev": ([0, 1, 4], [3, 2, 1, 0]),
        "single": ([0, 1, 2, 3, 4], [0, 1, 2, 3])},
    5: {"uneq": ([0, 2, 5], [0, 1, 2, 3, 4]), "inter": ([0, 2, 3, 5], [0, 3, 1, 2, 4]), "rev": ([0, 3, 5], [4, 3, 2, 1, 0]),
        "single": ([0, 1, 2, 3, 4, 5], [0, 1, 2, 3, 4])},
    2: {"one": ([0, 2], [0, 1]), "single": ([0, 1, 2], [0, 1]), "rev": ([0, 1, 2], [1, 0])},
    1: {"one": ([0, 1], [0])},
}
