"""Run one task of a driver in-process:  /venv/bin/python -m mc.debug c01 '<task json>' [tier]"""
import importlib, json, sys, time, os
sys.path.insert(0, os.environ.get("VERIF_REPO", "/repo"))
import warnings; warnings.simplefilter("ignore")
from mc import worker
worker._install_shim()
from mc.core import Ctx
drv = importlib.import_module("mc.drivers." + sys.argv[1])
task = json.loads(sys.argv[2]); tier = sys.argv[3] if len(sys.argv) > 3 else "quick"
ctx = Ctx(drv.PROPERTY, sys.argv[1], tier); ctx.checkpoint = lambda i: None
t0 = time.time(); drv.run(task, ctx); dt = time.time() - t0
print("evals", ctx.evals, "distinct", len(ctx.hashes), "counters", dict(ctx.counters), "time %.1f" % dt)
for v in ctx.viol.values():
    print("VIOL", v["site"], v["kind"], v["where"], "count", v["count"], "obs", str(v["observed"])[:200], "exp", str(v["expected"])[:80])
    if os.environ.get("SHOWP"): print("   params", json.dumps(v["params"])[:1500])
