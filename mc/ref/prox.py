"""Brute-force global minimisation of prox objectives  u -> 0.5||u - x||^2 + s * pen(u).

The oracles built on this module are one-sided: every number returned is the objective at a
*feasible* point, hence an upper bound of the true minimum; a library prox is faulted only when
its own objective exceeds that bound.  Missing the true minimum can only lose detections.
"""
import itertools

import numpy as np

from . import pen as P

GOLD = (np.sqrt(5.0) - 1) / 2


def _kinks(spec, s, j):
    n = spec["name"]
    a = spec.get("alpha", 0.0)
    ks = [0.0]
    if n in ("MCPenalty", "WeightedMCPenalty", "BlockMCPenalty"):
        ks += [a * spec["gamma"]]
    if n in ("SCAD", "BlockSCAD"):
        ks += [a, a * spec["gamma"]]
    if n == "IndicatorBox":
        ks += [a]
    return ks


def scalar_min(spec, x, s, j=0, n_grid=2001):
    """Vectorised in x.  Returns (Fmin, umin): best objective found for each x and where."""
    x = np.atleast_1d(np.asarray(x, dtype=float))
    lo, hi = P.bounds(spec)
    t = np.linspace(0.0, 1.0, n_grid)
    U = x[:, None] * t[None, :]                        # the minimiser lies between 0 and x
    extra = []
    for k in _kinks(spec, s, j):
        extra += [np.full_like(x, k), np.full_like(x, -k)]
    extra.append(np.clip(x, lo, hi))
    U = np.concatenate([U, np.stack(extra, axis=1)], axis=1)
    U = np.clip(U, lo, hi)
    F = 0.5 * (U - x[:, None]) ** 2 + s * P.phi(spec, U, j)
    k = np.argmin(F, axis=1)
    rows = np.arange(len(x))
    Fbest, ubest = F[rows, k], U[rows, k]
    # golden-section refinement inside the grid bracket around the best regular grid point
    Freg = F[:, :n_grid]
    kr = np.argmin(Freg, axis=1)
    a = U[rows, np.maximum(kr - 1, 0)]
    b = U[rows, np.minimum(kr + 1, n_grid - 1)]
    a, b = np.minimum(a, b), np.maximum(a, b)

    def f(u):
        return 0.5 * (u - x) ** 2 + s * P.phi(spec, u, j)
    c = b - GOLD * (b - a)
    d = a + GOLD * (b - a)
    fc, fd = f(c), f(d)
    for _ in range(70):
        m = fc < fd
        b = np.where(m, d, b)
        a = np.where(m, a, c)
        c2 = b - GOLD * (b - a)
        d2 = a + GOLD * (b - a)
        c, d = c2, d2
        fc, fd = f(c), f(d)
    um = 0.5 * (a + b)
    fm = f(um)
    better = fm < Fbest
    return np.where(better, fm, Fbest), np.where(better, um, ubest)


def scalar_obj(spec, u, x, s, j=0):
    return 0.5 * (u - x) ** 2 + s * P.phi(spec, u, j)


def radial_block_min(spec, x, s, j=0):
    """Rotation-invariant block penalty: minimiser is r * x/||x||, r >= 0 solving a scalar prox."""
    x = np.asarray(x, dtype=float)
    nx = P.norm2(x)
    sc = dict(spec)
    rad = {"L2_1": "L1", "L2_05": "L0_5", "BlockMCPenalty": "MCPenalty", "BlockSCAD": "SCAD",
           "WeightedGroupL2": "WeightedL1"}[spec["name"]]
    sc["name"] = rad
    sc["positive"] = False
    Fmin, r = scalar_min(sc, np.array([nx]), s, j)
    return float(Fmin[0])


def block_obj(spec, u, x, s, j=0):
    u = np.asarray(u, dtype=float)
    x = np.asarray(x, dtype=float)
    if spec.get("positive") and np.any(u < 0):
        return np.inf
    return float(0.5 * np.sum((u - x) ** 2) + s * float(P.radial(spec, P.norm2(u), j)))


def group_positive_min(spec, x, s, g):
    """min over u >= 0 of 0.5||u-x||^2 + s*alpha*w_g*||u||, by enumeration of active sets."""
    x = np.asarray(x, dtype=float)
    m = len(x)
    c = s * spec["alpha"] * spec["weights"][g]
    best = 0.5 * float(x @ x)                      # u = 0
    for k in range(1, m + 1):
        for S in itertools.combinations(range(m), k):
            xs = x[list(S)]
            nx = np.linalg.norm(xs)
            if nx <= c:
                continue
            us = (1 - c / nx) * xs
            if np.any(us < 0):
                us = np.maximum(us, 0.0)           # still a feasible candidate
            u = np.zeros(m)
            u[list(S)] = us
            best = min(best, 0.5 * float((u - x) @ (u - x)) + c * float(np.linalg.norm(u)))
    return best


def sparse_group_obj(spec, u, x, s, g, idx):
    a = spec["alpha"]
    wf = np.asarray(spec["weights_features"], dtype=float)[idx]
    return float(0.5 * np.sum((u - x) ** 2) + s * a * (spec["weights_groups"][g] * np.linalg.norm(u)
                                                       + np.sum(wf * np.abs(u))))


def sparse_group_min(spec, x, s, g, idx):
    """Convex: textbook closed form (soft-threshold then block soft-threshold) + local probes."""
    x = np.asarray(x, dtype=float)
    a = spec["alpha"]
    wf = np.asarray(spec["weights_features"], dtype=float)[idx]
    v = np.sign(x) * np.maximum(np.abs(x) - s * a * wf, 0.0)
    nv = np.linalg.norm(v)
    c = s * a * spec["weights_groups"][g]
    u = np.zeros_like(x) if nv <= c else (1 - c / nv) * v
    best = sparse_group_obj(spec, u, x, s, g, idx)
    for cand in (np.zeros_like(x), x, v):
        best = min(best, sparse_group_obj(spec, cand, x, s, g, idx))
    return best


def slope_obj(alphas, u, x, s):
    al = np.sort(np.asarray(alphas, dtype=float))[::-1]
    return float(0.5 * np.sum((u - x) ** 2) + s * np.sum(np.sort(np.abs(u))[::-1] * al))


def slope_min(alphas, x, s):
    """Enumerate all partitions of the sorted |x| into consecutive clusters (p <= 5)."""
    x = np.asarray(x, dtype=float)
    p = len(x)
    al = np.sort(np.asarray(alphas, dtype=float))[::-1]
    order = np.argsort(-np.abs(x), kind="stable")
    z = np.abs(x)[order]
    best = np.inf
    for cuts in itertools.product([0, 1], repeat=p - 1):
        v = np.zeros(p)
        start = 0
        for i in range(p):
            if i == p - 1 or cuts[i]:
                v[start:i + 1] = max(np.mean(z[start:i + 1] - s * al[start:i + 1]), 0.0)
                start = i + 1
        u = np.zeros(p)
        u[order] = v
        u *= np.where(x < 0, -1.0, 1.0)
        best = min(best, slope_obj(alphas, u, x, s))
    return best


def prox_set_1d(spec, z, s, j=0, tol=1e-9):
    """(Fmin, u*) of the scalar prox at one point (used by the fixed-point certificate)."""
    F, u = scalar_min(spec, np.array([float(z)]), s, j, n_grid=4001)
    return float(F[0]), float(u[0])
