"""Reference penalties: documented values, one-sided derivatives, regular subdifferentials.

Plain numpy, no skglm import.  A penalty is described by a JSON-able spec
    {"name": "MCPenalty", "alpha": 0.7, "gamma": 3.0, "positive": False, "weights": [...], ...}
Group penalties carry "grp_ptr"/"grp_indices"; SLOPE carries "alphas".
"""
import numpy as np

INF = np.inf
SEPARABLE = ("L1", "L1_plus_L2", "WeightedL1", "MCPenalty", "WeightedMCPenalty", "SCAD",
             "IndicatorBox", "L0_5", "L2_3", "LogSumPenalty", "PositiveConstraint", "L2")
ROW = ("L2_1", "L2_05", "BlockMCPenalty", "BlockSCAD")
GROUP = ("WeightedGroupL2", "WeightedL1GroupL2")
CONVEX = ("L1", "L1_plus_L2", "WeightedL1", "IndicatorBox", "PositiveConstraint", "L2", "L2_1",
          "WeightedGroupL2", "WeightedL1GroupL2", "SLOPE")


def norm2(t):
    """Euclidean norm without underflow/overflow (numpy's 1-D norm squares the entries first)."""
    t = np.asarray(t, dtype=float).ravel()
    m = float(np.max(np.abs(t))) if t.size else 0.0
    if m == 0.0 or not np.isfinite(m):
        return m
    return m * float(np.sqrt(np.sum((t / m) ** 2)))


def _w(spec, j):
    return float(spec["weights"][j]) if "weights" in spec and spec["weights"] is not None else 1.0


def bounds(spec):
    """Feasible interval of one coordinate."""
    n = spec["name"]
    if n == "IndicatorBox":
        return 0.0, float(spec["alpha"])
    if n == "PositiveConstraint" or spec.get("positive"):
        return 0.0, INF
    return -INF, INF


def _mcp(r, a, g):
    return np.where(r <= a * g, a * r - r ** 2 / (2 * g), g * a ** 2 / 2)


def _scad(r, a, g):
    return np.where(r <= a, a * r,
                    np.where(r <= a * g, (2 * g * a * r - r ** 2 - a ** 2) / (2 * (g - 1)),
                             a ** 2 * (g + 1) / 2))


def radial(spec, r, j=0):
    """psi(r), r >= 0: finite part of the penalty of one coordinate / block as function of its norm."""
    n = spec["name"]
    a = spec.get("alpha")
    r = np.asarray(r, dtype=float)
    if n in ("L1", "L2_1"):
        return a * r
    if n == "L1_plus_L2":
        return spec["l1_ratio"] * a * r + (1 - spec["l1_ratio"]) * a / 2 * r ** 2
    if n == "WeightedL1":
        return a * _w(spec, j) * r
    if n in ("MCPenalty", "BlockMCPenalty"):
        return _mcp(r, a, spec["gamma"])
    if n == "WeightedMCPenalty":
        return _w(spec, j) * _mcp(r, a, spec["gamma"])
    if n in ("SCAD", "BlockSCAD"):
        return _scad(r, a, spec["gamma"])
    if n in ("IndicatorBox", "PositiveConstraint"):
        return np.zeros_like(r)
    if n in ("L0_5", "L2_05"):
        return a * np.sqrt(r)
    if n == "L2_3":
        return a * r ** (2.0 / 3.0)
    if n == "LogSumPenalty":
        return a * np.log1p(r / spec["eps"])
    if n == "L2":
        return a * r ** 2 / 2
    if n == "WeightedGroupL2":
        return a * _w(spec, j) * r
    raise KeyError(n)


def dradial(spec, r, j=0):
    """(psi'(r) for r > 0 ; right derivative at r = 0)."""
    n = spec["name"]
    a = spec.get("alpha")
    if n in ("L1", "L2_1"):
        return a
    if n == "L1_plus_L2":
        return spec["l1_ratio"] * a + (1 - spec["l1_ratio"]) * a * r
    if n == "WeightedL1":
        return a * _w(spec, j)
    if n in ("MCPenalty", "BlockMCPenalty", "WeightedMCPenalty"):
        g = spec["gamma"]
        d = a - r / g if r < a * g else 0.0
        return d * (_w(spec, j) if n == "WeightedMCPenalty" else 1.0)
    if n in ("SCAD", "BlockSCAD"):
        g = spec["gamma"]
        if r <= a:
            return a
        if r <= a * g:
            return (a * g - r) / (g - 1)
        return 0.0
    if n in ("IndicatorBox", "PositiveConstraint"):
        return 0.0
    if n in ("L0_5", "L2_05"):
        return INF if r == 0 else a / (2 * np.sqrt(r))
    if n == "L2_3":
        return INF if r == 0 else a * 2.0 / (3.0 * r ** (1.0 / 3.0))
    if n == "LogSumPenalty":
        return a / (spec["eps"] + r)
    if n == "L2":
        return a * r
    if n == "WeightedGroupL2":
        return a * _w(spec, j)
    raise KeyError(n)


def phi(spec, u, j=0):
    """Scalar penalty u -> phi_j(u), +inf outside the feasible interval.  Vectorised in u."""
    u = np.asarray(u, dtype=float)
    lo, hi = bounds(spec)
    v = radial(spec, np.abs(u), j)
    return np.where((u < lo) | (u > hi), INF, v)


def value(spec, w):
    """Documented value of the whole penalty at w (vector, or matrix for row penalties)."""
    n = spec["name"]
    w = np.asarray(w, dtype=float)
    if n in SEPARABLE:
        return float(sum(float(phi(spec, w[j], j)) for j in range(len(w))))
    if n in ROW:
        return float(sum(float(radial(spec, norm2(w[j]), j)) for j in range(w.shape[0])))
    if n in GROUP:
        ptr, ind = spec["grp_ptr"], spec["grp_indices"]
        if n == "WeightedGroupL2":
            if spec.get("positive") and np.any(w < 0):
                return INF
            return float(sum(spec["alpha"] * spec["weights"][g]
                             * norm2(w[ind[ptr[g]:ptr[g + 1]]])
                             for g in range(len(ptr) - 1)))
        tot = sum(spec["weights_groups"][g] * norm2(w[ind[ptr[g]:ptr[g + 1]]])
                  for g in range(len(ptr) - 1))
        tot += np.sum(np.asarray(spec["weights_features"]) * np.abs(w))
        return float(spec["alpha"] * tot)
    if n == "SLOPE":
        al = np.sort(np.asarray(spec["alphas"], dtype=float))[::-1]
        return float(np.sum(np.sort(np.abs(w))[::-1] * al))
    raise KeyError(n)


def subdiff_interval(spec, u, j=0):
    """Regular subdifferential of phi_j + indicator(feasible) at u, as (lo, hi); None if empty."""
    lo, hi = bounds(spec)
    if u < lo or u > hi:
        return None
    r = abs(u)
    if u == 0:
        d0 = dradial(spec, 0.0, j)
        a, b = -d0, d0
    else:
        d = dradial(spec, r, j) * np.sign(u)
        a = b = d
    if u == lo and lo > -INF:
        a = -INF
    if u == hi and hi < INF:
        b = INF
    if a > b:
        return None
    return a, b


def dist_interval(x, iv):
    if iv is None:
        return INF
    a, b = iv
    if x < a:
        return a - x
    if x > b:
        return x - b
    return 0.0


def subdiff_distance_sep(spec, w, grad, ws=None):
    """dist(-grad_j, subdifferential of the penalty at w_j) for j in ws."""
    ws = range(len(w)) if ws is None else ws
    return np.array([dist_interval(-grad[k], subdiff_interval(spec, float(w[j]), j))
                     for k, j in enumerate(ws)])


def subdiff_distance_block(spec, t, g, j=0):
    """Block t (row of W, or group of w), g the matching gradient block."""
    t = np.asarray(t, dtype=float)
    g = np.asarray(g, dtype=float)
    n = spec["name"]
    positive = bool(spec.get("positive")) and n == "WeightedGroupL2"
    r = norm2(t)
    if positive:
        if np.any(t < 0):
            return INF
        c = dradial(spec, r, j)
        if r == 0:
            q = np.maximum(-g, 0.0)
            return max(0.0, norm2(q) - c)
        res = np.where(t > 0, -g - c * t / r, np.maximum(-g, 0.0))
        return norm2(res)
    if r == 0:
        d0 = dradial(spec, 0.0, j)
        return 0.0 if d0 == INF else max(0.0, norm2(g) - d0)
    return norm2(g + dradial(spec, r, j) * t / r)


def is_penalized(spec, n_features):
    if spec["name"] in ("WeightedL1",):
        return np.asarray(spec["weights"], dtype=float) != 0
    return np.ones(n_features, dtype=bool)


def groups_of(spec):
    ptr, ind = spec["grp_ptr"], spec["grp_indices"]
    return [list(ind[ptr[g]:ptr[g + 1]]) for g in range(len(ptr) - 1)]
