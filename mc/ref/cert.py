"""Reference first-order certificate and objective of a composed problem, from (X, y, w, b) alone.

Plain numpy, no skglm import.  `problem` is a dict
    {"datafit": spec | None (None = Quadratic, GramCD), "penalty": spec, "X": ndarray (dense), "y": ndarray,
     "fit_intercept": bool}
`w` is the solver's return value: p (+1 if intercept) entries, or a (p[+1], T) matrix for multitask.
"""
import numpy as np

from . import loss as RL
from . import pen as RP
from . import prox as RX


def dspec_of(problem):
    return problem["datafit"] or {"name": "Quadratic"}


def split(problem, w):
    p = problem["X"].shape[1]
    w = np.asarray(w, dtype=float)
    if problem.get("fit_intercept"):
        return w[:p], w[p]
    return w[:p], (0.0 if w.ndim == 1 else np.zeros(w.shape[1]))


def linear_predictor(problem, w):
    coef, b = split(problem, w)
    return problem["X"] @ coef + b


def objective(problem, w):
    """Documented objective: loss(Xw + b) + penalty(w), intercept unpenalised."""
    coef, b = split(problem, w)
    d = dspec_of(problem)
    u = problem["X"] @ coef + b
    if d["name"] == "QuadraticSVC":
        lv = RL.value(d, problem["y"], u, coef)
    else:
        lv = RL.value(d, problem["y"], u)
    return lv + RP.value(problem["penalty"], coef)


def gradients(problem, w):
    """(gradient w.r.t. coefficients, gradient w.r.t. intercept)."""
    coef, b = split(problem, w)
    d = dspec_of(problem)
    X = problem["X"]
    u = X @ coef + b
    if d["name"] == "QuadraticSVC":
        return X.T @ u - 1.0, 0.0
    g_u = RL.grad(d, problem["y"], u)
    gb = np.sum(g_u, axis=0)
    return X.T @ g_u, gb


def hess_diag_bound(problem, w):
    """Diagonal (bound of the) Hessian w.r.t. the linear predictor, as prox-Newton defines its step sizes."""
    coef, b = split(problem, w)
    d = dspec_of(problem)
    u = problem["X"] @ coef + b
    y = problem["y"]
    if d["name"] == "Cox":
        e = np.exp(u)
        out = np.zeros(len(u))
        for a in RL.cox_terms(y, d.get("use_efron", False)):
            out += a * e / (a @ e)
        return out / len(u)
    if d["name"] == "SqrtQuadratic":
        return np.full(len(u), 1.0 / np.linalg.norm(y - u))
    return np.diag(RL.hess(d, y, u))


def ref_prox_1d(pspec, z, s, j):
    n = pspec["name"]
    a = pspec.get("alpha", 0.0)
    lo, hi = RP.bounds(pspec)
    if n in ("L1", "WeightedL1", "L1_plus_L2"):
        thr = s * a * (RP._w(pspec, j) if n == "WeightedL1" else (pspec["l1_ratio"] if n == "L1_plus_L2" else 1.0))
        u = np.sign(z) * max(abs(z) - thr, 0.0)
        if n == "L1_plus_L2":
            u /= 1 + s * (1 - pspec["l1_ratio"]) * a
        return float(min(max(u, lo), hi)) if lo > -np.inf else float(u)
    if n in ("IndicatorBox", "PositiveConstraint"):
        return float(min(max(z, lo), hi))
    return RX.prox_set_1d(pspec, z, s, j)[1]


def penalty_violation(problem, coef, grad, strategy="subdiff", lips=None):
    """Per-feature / per-group / per-row violation vector."""
    ps = problem["penalty"]
    n = ps["name"]
    p = problem["X"].shape[1]
    if n == "L2":
        return np.abs(grad + ps["alpha"] * coef)
    if strategy == "subdiff":
        if n in RP.SEPARABLE:
            return RP.subdiff_distance_sep(ps, coef, grad)
        if n in RP.ROW:
            return np.array([RP.subdiff_distance_block(ps, coef[j], grad[j], j) for j in range(p)])
        if n == "WeightedGroupL2":
            return np.array([RP.subdiff_distance_block(ps, coef[g], grad[g], k)
                             for k, g in enumerate(RP.groups_of(ps))])
        raise KeyError(n)
    # fixed-point residuals
    out = []
    if n in RP.SEPARABLE:
        for j in range(p):
            s = 1.0 / lips[j] if lips[j] != 0 else 1000.0       # zero column: the large step the CD epochs use
            z = coef[j] - s * grad[j]
            u = ref_prox_1d(ps, z, s, j)
            r = abs(coef[j] - u)
            if r > 0 and n not in RP.CONVEX:
                # ties of a non-convex prox: accept w_j itself if it is (numerically) a global minimiser
                Fmin = float(RX.scalar_obj(ps, u, z, s, j))
                Fw = float(RX.scalar_obj(ps, coef[j], z, s, j))
                if Fw <= Fmin + 1e-12 * (1 + abs(Fmin)):
                    r = 0.0
            out.append(r)
        return np.array(out)
    if n in RP.ROW or n == "WeightedGroupL2":
        blocks = [[j] for j in range(p)] if n in RP.ROW else RP.groups_of(ps)
        for k, g in enumerate(blocks):
            s = 1.0 / lips[k] if lips[k] != 0 else 1000.0       # zero block: the large step the BCD epochs use
            t = coef[g[0]] if n in RP.ROW else coef[g]
            gr = grad[g[0]] if n in RP.ROW else grad[g]
            z = t - s * gr
            u = block_prox(ps, z, s, k)
            out.append(RP.norm2(t - u))
        return np.array(out)
    raise KeyError(n)


def block_prox(ps, z, s, k):
    """Textbook block soft-thresholding (convex group / row penalties); radial brute force otherwise."""
    n = ps["name"]
    z = np.asarray(z, dtype=float)
    if n == "WeightedGroupL2" and ps.get("positive"):
        z = np.maximum(z, 0.0)
    r = RP.norm2(z)
    if r == 0:
        return np.zeros_like(z)
    if n in ("L2_1", "WeightedGroupL2"):
        c = s * ps["alpha"] * (RP._w(ps, k) if n == "WeightedGroupL2" else 1.0)
        return np.zeros_like(z) if r <= c else (1 - c / r) * z
    rad = {"L2_05": "L0_5", "BlockMCPenalty": "MCPenalty", "BlockSCAD": "SCAD"}[n]
    sc = dict(ps, name=rad, positive=False)
    _, rr = RX.prox_set_1d(sc, r, s, 0)
    return rr * z / r


def lipschitz(problem, w, solver_kind):
    """Step-size constants the fixed-point strategy of `solver_kind` is documented to use."""
    X = problem["X"]
    d = dspec_of(problem)
    ps = problem["penalty"]
    if solver_kind == "pn":
        return hess_diag_bound(problem, w) @ (X ** 2)
    y = problem["y"]
    D = np.ones(X.shape[0]) if d["name"] == "QuadraticSVC" else RL.curvature_sup(
        {"name": "Quadratic"} if d["name"] == "QuadraticMultiTask" else d, y if y.ndim == 1 else y[:, 0])
    if ps["name"] == "WeightedGroupL2":
        out = []
        for g in RP.groups_of(ps):
            M = X[:, g].T @ (D[:, None] * X[:, g])
            out.append(float(max(np.linalg.eigvalsh((M + M.T) / 2)[-1], 0.0)))
        return np.array(out)
    return D @ (X ** 2)


def violation(problem, w, strategy="subdiff", solver_kind="cd"):
    """max( penalty violation , |dF/db| ) recomputed from X, y, w alone."""
    coef, b = split(problem, w)
    grad, gb = gradients(problem, w)
    lips = lipschitz(problem, w, solver_kind) if strategy == "fixpoint" else None
    pv = penalty_violation(problem, coef, grad, strategy, lips)
    icpt = float(np.max(np.abs(gb))) if problem.get("fit_intercept") else 0.0
    return float(max(np.max(pv) if len(pv) else 0.0, icpt)), dict(penalty=float(np.max(pv)) if len(pv) else 0.0,
                                                                 intercept=icpt)


def alpha_crit(problem_no_pen):
    """Critical strength of a unit-weight L1-type penalty: max_j |X_j' grad F(null model)|."""
    d = dspec_of(problem_no_pen)
    X, y = problem_no_pen["X"], problem_no_pen["y"]
    if d["name"] == "QuadraticSVC":
        return 1.0
    if problem_no_pen.get("fit_intercept"):
        b = RL.null_intercept(d, y if d["name"] != "Cox" else y)
    else:
        b = 0.0 if y.ndim == 1 or d["name"] == "Cox" else np.zeros(y.shape[1])
    n = X.shape[0]
    u = np.zeros(n) + b if (y.ndim == 1 or d["name"] == "Cox") else np.zeros(y.shape) + b
    if d["name"] == "SqrtQuadratic" and not np.any(y - u):
        return 1.0
    g = X.T @ RL.grad(d, y, u)
    if g.ndim == 2:
        return float(np.max(np.linalg.norm(g, axis=1)))
    return float(np.max(np.abs(g))) if g.size else 1.0
