"""Reference losses: documented formula, gradient and Hessian w.r.t. the linear predictor u = Xw + b.

Plain numpy, no skglm import.  A datafit is described by a JSON-able spec {"name": ..., hyper...}.
`selftest()` compares the hand-derived derivatives with central differences of `value` itself.
"""
import numpy as np


def _sw(spec):
    return np.asarray(spec["sample_weights"], dtype=float)


def cox_terms(y, efron):
    """List of (weights a over samples, index i) such that loss = 1/n sum_i s_i * (-u_i) + 1/n sum_terms log(a . exp(u))."""
    tm, s = y[:, 0], y[:, 1]
    n = len(tm)
    terms = []
    if not efron:
        for i in range(n):
            if s[i]:
                terms.append((tm >= tm[i]).astype(float))
        return terms
    for t in np.unique(tm):
        H = [i for i in range(n) if s[i] and tm[i] == t]
        risk = (tm >= t).astype(float)
        for k in range(len(H)):
            a = risk.copy()
            a[H] -= k / len(H)
            terms.append(a)
    return terms


def value(spec, y, u, w=None):
    n = spec["name"]
    y = np.asarray(y, dtype=float)
    u = np.asarray(u, dtype=float)
    m = len(u)
    if n in ("Quadratic", "QuadraticGroup"):
        return float(np.sum((y - u) ** 2) / (2 * m))
    if n == "QuadraticMultiTask":
        return float(np.sum((y - u) ** 2) / (2 * u.shape[0]))
    if n == "WeightedQuadratic":
        sw = _sw(spec)
        return float(np.sum(sw * (y - u) ** 2) / (2 * sw.sum()))
    if n in ("Logistic", "LogisticGroup"):
        return float(np.sum(np.logaddexp(0.0, -y * u)) / m)
    if n == "Huber":
        d = spec["delta"]
        r = np.abs(y - u)
        return float(np.sum(np.where(r <= d, 0.5 * r ** 2, d * r - 0.5 * d ** 2)) / m)
    if n == "Poisson":
        return float(np.sum(np.exp(u) - y * u) / m)
    if n == "Gamma":
        return float(np.sum(u + y * np.exp(-u) - 1 - np.log(y)) / m)
    if n == "Cox":
        s = y[:, 1]
        tot = -float(s @ u)
        for a in cox_terms(y, spec.get("use_efron", False)):
            tot += float(np.log(a @ np.exp(u)))
        return tot / m
    if n == "QuadraticSVC":          # u = (yX)^T w ; depends on the dual variable w itself too
        return float(np.sum(u ** 2) / 2 - np.sum(w))
    if n == "SqrtQuadratic":
        return float(np.linalg.norm(y - u))
    if n == "Pinball":
        q = spec["quantile_level"]
        r = y - u
        return float(np.sum(q * np.maximum(r, 0) + (1 - q) * np.maximum(-r, 0)))
    raise KeyError(n)


def grad(spec, y, u):
    """dF/du (vector of length n_samples; matrix for multitask)."""
    n = spec["name"]
    y = np.asarray(y, dtype=float)
    u = np.asarray(u, dtype=float)
    m = u.shape[0]
    if n in ("Quadratic", "QuadraticGroup", "QuadraticMultiTask"):
        return (u - y) / m
    if n == "WeightedQuadratic":
        sw = _sw(spec)
        return sw * (u - y) / sw.sum()
    if n in ("Logistic", "LogisticGroup"):
        return -y / (1 + np.exp(y * u)) / m
    if n == "Huber":
        d = spec["delta"]
        r = y - u
        return -np.where(np.abs(r) <= d, r, d * np.sign(r)) / m
    if n == "Poisson":
        return (np.exp(u) - y) / m
    if n == "Gamma":
        return (1 - y * np.exp(-u)) / m
    if n == "Cox":
        g = -y[:, 1].astype(float).copy()
        e = np.exp(u)
        for a in cox_terms(y, spec.get("use_efron", False)):
            g += a * e / (a @ e)
        return g / m
    if n == "SqrtQuadratic":
        r = u - y
        return r / np.linalg.norm(r)
    if n == "Pinball":                       # a subgradient (kink at zero residual)
        q = spec["quantile_level"]
        r = y - u
        return np.where(r > 0, -q, np.where(r < 0, 1 - q, 0.0))
    raise KeyError(n)


def hess(spec, y, u):
    """Full Hessian d2F/du2 (n x n)."""
    n = spec["name"]
    y = np.asarray(y, dtype=float)
    u = np.asarray(u, dtype=float)
    m = len(u)
    if n in ("Quadratic", "QuadraticGroup"):
        return np.eye(m) / m
    if n == "WeightedQuadratic":
        sw = _sw(spec)
        return np.diag(sw / sw.sum())
    if n in ("Logistic", "LogisticGroup"):
        p = 1 / (1 + np.exp(-y * u))
        return np.diag(p * (1 - p) / m)
    if n == "Huber":
        return np.diag((np.abs(y - u) < spec["delta"]).astype(float) / m)
    if n == "Poisson":
        return np.diag(np.exp(u) / m)
    if n == "Gamma":
        return np.diag(y * np.exp(-u) / m)
    if n == "Cox":
        H = np.zeros((m, m))
        e = np.exp(u)
        for a in cox_terms(y, spec.get("use_efron", False)):
            p = a * e / (a @ e)
            H += np.diag(p) - np.outer(p, p)
        return H / m
    if n == "SqrtQuadratic":
        r = u - y
        nr = np.linalg.norm(r)
        return np.eye(m) / nr - np.outer(r, r) / nr ** 3
    raise KeyError(n)


def curvature_sup(spec, y):
    """Diagonal D with Hessian(u) <= diag(D) for every u (None if unbounded): documented bounds."""
    n = spec["name"]
    m = len(y)
    if n in ("Quadratic", "QuadraticGroup", "Huber"):
        return np.full(m, 1.0 / m)
    if n == "WeightedQuadratic":
        sw = _sw(spec)
        return sw / sw.sum()
    if n in ("Logistic", "LogisticGroup"):
        return np.full(m, 1.0 / (4 * m))
    return None


def lipschitz_coord(spec, X, y):
    """Documented coordinate-wise constants L_j = sum_i D_i X_ij^2."""
    if spec["name"] == "QuadraticSVC":
        return np.sum(np.asarray(X) ** 2, axis=0)
    if spec["name"] == "QuadraticMultiTask":
        return np.sum(np.asarray(X) ** 2, axis=0) / X.shape[0]
    D = curvature_sup(spec, y)
    return None if D is None else D @ (np.asarray(X) ** 2)


def null_intercept(spec, y, iters=200):
    """argmin_b F(b * 1): closed form where available, Newton otherwise."""
    n = spec["name"]
    y = np.asarray(y, dtype=float)
    if n in ("Quadratic", "QuadraticGroup"):
        return float(np.mean(y))
    if n == "QuadraticMultiTask":
        return np.mean(y, axis=0)
    if n == "WeightedQuadratic":
        sw = _sw(spec)
        return float(sw @ y / sw.sum())
    b = 0.0
    for _ in range(iters):
        u = np.full(len(y), b)
        g = float(np.sum(grad(spec, y, u)))
        h = float(np.sum(hess(spec, y, u)))
        if h <= 0:
            break
        step = g / h
        b -= step
        if abs(step) < 1e-15:
            break
    return b


def selftest():
    rng = np.random.RandomState(0)
    worst = 0.0
    cases = [({"name": "Quadratic"}, rng.randn(5)), ({"name": "WeightedQuadratic", "sample_weights": [1, 2, 1, 3, .5]}, rng.randn(5)),
             ({"name": "Logistic"}, np.array([1., -1, 1, 1, -1])), ({"name": "Huber", "delta": 0.5}, rng.randn(5)),
             ({"name": "Poisson"}, np.array([1., 2, 0, 1, 3])), ({"name": "Gamma"}, np.array([1., 2, .5, 1, 3])),
             ({"name": "Cox", "use_efron": False}, np.c_[[1., 2, 2, 3, 2], [1., 1, 0, 1, 1]]),
             ({"name": "Cox", "use_efron": True}, np.c_[[1., 2, 2, 3, 2], [1., 1, 0, 1, 1]]),
             ({"name": "SqrtQuadratic"}, rng.randn(5))]
    for spec, y in cases:
        u = rng.randn(5) * 0.7
        g = grad(spec, y, u)
        H = hess(spec, y, u)
        h = 1e-5
        gn = np.zeros(5)
        Hn = np.zeros((5, 5))
        for i in range(5):
            e = np.zeros(5)
            e[i] = h
            gn[i] = (value(spec, y, u + e) - value(spec, y, u - e)) / (2 * h)
            Hn[:, i] = (grad(spec, y, u + e) - grad(spec, y, u - e)) / (2 * h)
        err = max(np.abs(g - gn).max(), np.abs(H - Hn).max())
        assert err < 1e-6, (spec, err)
        worst = max(worst, err)
    return worst
