"""Worker process: imports skglm from the tree under test and executes driver tasks.

Protocol (line-delimited JSON): parent -> stdin, worker -> a private dup of fd 1
(fd 1 itself is redirected to stderr so that stray prints cannot corrupt the protocol).
"""
import importlib
import json
import os
import sys
import time
import traceback
import warnings


def _install_shim():
    # DESIGN F5: sklearn >= 1.6 removed BaseEstimator._validate_data, which skglm's regressors call.
    # Installed only when missing, so the checks behave identically on a repaired tree/environment.
    from sklearn.base import BaseEstimator
    if not hasattr(BaseEstimator, "_validate_data"):
        from sklearn.utils.validation import validate_data

        def _validate_data(self, X="no_validation", y="no_validation", **kw):
            return validate_data(self, X=X, y=y, **kw)
        BaseEstimator._validate_data = _validate_data
        return True
    return False


def main():
    driver_name = sys.argv[1]
    out = os.fdopen(os.dup(1), "w", buffering=1)
    os.dup2(2, 1)
    sys.stdout = sys.stderr
    warnings.simplefilter("ignore")
    repo = os.environ.get("VERIF_REPO", "/repo")
    sys.path.insert(0, repo)

    def send(obj):
        out.write(json.dumps(obj) + "\n")
        out.flush()

    try:
        import skglm
        if not os.path.realpath(skglm.__file__).startswith(os.path.realpath(repo) + os.sep):
            raise RuntimeError(f"skglm resolves to {skglm.__file__}, expected under {repo}")
        shim = _install_shim()
        from mc.core import Ctx
        driver = importlib.import_module(f"mc.drivers.{driver_name}")
        send({"ready": True, "skglm": skglm.__file__, "shim": shim})
    except Exception:
        send({"error": traceback.format_exc()})
        return

    for line in sys.stdin:
        msg = json.loads(line)
        cmd = msg.get("cmd")
        if cmd == "exit":
            break
        t0 = time.process_time()
        try:
            if cmd == "run":
                task = msg["task"]
                ctx = Ctx(driver.PROPERTY, driver_name, task.get("tier", "quick"))

                def ckpt(idx, _ctx=ctx):
                    send({"ckpt": idx, "partial": _ctx.dump()})
                ctx.checkpoint = ckpt
                driver.run(task, ctx)
                send({"done": True, "partial": ctx.dump(), "cpu_s": time.process_time() - t0})
            elif cmd == "replay":
                res = driver.replay(msg["params"])
                send({"done": True, "replay": res, "cpu_s": time.process_time() - t0})
            else:
                send({"error": f"unknown cmd {cmd}"})
        except Exception:
            send({"error": traceback.format_exc()})


if __name__ == "__main__":
    main()
