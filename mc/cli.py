"""./check <Cxx> [--tier quick|thorough]   |   ./check replay <file>   |   ./check selftest"""
import argparse
import hashlib
import importlib
import json
import os
import sys
import time

ROOT = os.path.dirname(os.path.dirname(os.path.abspath(__file__)))
sys.path.insert(0, ROOT)

from mc import findings, pool  # noqa: E402


def _write_replay(prop, driver, v, tier, seed):
    rec = dict(property=prop, driver=driver, site=v["site"], kind=v["kind"], where=v["where"],
               params=v["params"], observed=v["observed"], expected=v["expected"], tier=tier,
               seed=seed, count=v["count"])
    sha = hashlib.sha1(json.dumps([v["site"], v["kind"], v["where"], v["params"]],
                                  sort_keys=True).encode()).hexdigest()[:16]
    d = os.path.join(ROOT, "replays", prop)
    os.makedirs(d, exist_ok=True)
    path = os.path.join(d, sha + ".json")
    with open(path, "w") as f:
        json.dump(rec, f, indent=1, sort_keys=True)
    test = os.path.join(d, f"test_{sha}.py")
    with open(test, "w") as f:
        f.write(f'''"""Replays one recorded violation of {prop} without the explorer:  /venv/bin/python {os.path.relpath(test, ROOT)}"""
import json, os, sys
ROOT = os.path.dirname(os.path.dirname(os.path.dirname(os.path.abspath(__file__))))
sys.path.insert(0, ROOT); sys.path.insert(0, os.environ.get("VERIF_REPO", "/repo"))
from mc import worker
worker._install_shim()
from mc.drivers import {driver} as drv
rec = json.load(open(os.path.join(os.path.dirname(os.path.abspath(__file__)), "{sha}.json")))
res = drv.replay(rec["params"])
print(json.dumps(res, indent=1)[:4000])
assert not res["violated"], "{prop} violated: %s" % (res.get("kinds"),)
''')
    return os.path.relpath(path, ROOT)


def confirm(driver, params, extra_env=None):
    """Replay twice in fresh workers; returns (violated, deterministic, result)."""
    r1 = pool.replay_once(driver, params, extra_env)
    r2 = pool.replay_once(driver, params, extra_env)
    if "replay" not in r1 or "replay" not in r2:
        same = (("dead" in r1 and "dead" in r2) or ("timeout" in r1 and "timeout" in r2))
        return True, same, dict(r1=r1, r2=r2)
    a, b = r1["replay"], r2["replay"]
    return bool(a.get("violated")), json.dumps(a, sort_keys=True) == json.dumps(b, sort_keys=True), a


def cmd_check(prop, tier):
    seed = int(os.environ.get("VERIF_SEED", "0") or 0)
    os.environ["VERIF_SEED"] = str(seed)
    name = prop.lower()
    drv = importlib.import_module(f"mc.drivers.{name}")
    t0 = time.time()
    tasks = drv.plan(tier, seed)
    for i, t in enumerate(tasks):
        t.setdefault("id", f"{name}-{i}")
        t["tier"] = tier
    print(f"[{prop}] tier={tier} seed={seed} tasks={len(tasks)}", flush=True)
    agg = pool.run_tasks(name, drv, tasks)
    if hasattr(drv, "post"):                      # cross-task comparisons (e.g. checked vs unchecked runs)
        from mc.core import Ctx
        pctx = Ctx(prop, name, tier)
        drv.post(agg, pctx)
        pool.merge_partial(agg, pctx.dump(), len(tasks))

    known = [] if os.environ.get("VERIF_NO_KNOWN") else findings.load(prop)      # maintenance switch: see every group as new
    exit_code = 0
    lines = []
    # 1. re-observe every listed known finding through its witness
    known_seen = []
    from concurrent.futures import ThreadPoolExecutor
    kn = [e for e in known if e.get("status") == "known"]
    with ThreadPoolExecutor(8) as ex:
        kres = list(ex.map(lambda e: confirm(name, e["witness"]), kn))
    for e, (violated, det, res) in zip(kn, kres):
        if not det:
            agg["errors"].append(f"known-finding witness not deterministic: {e['text']}")
        if violated:
            known_seen.append(e["text"])
    # 2. triage explored violations
    new_viol, matched = [], {}
    for v in sorted(agg["viol"].values(), key=lambda v: tuple(v["rank"])):
        m = next((e for e in known if findings.matches(e, v)), None)
        if m is not None:
            matched[m["text"]] = matched.get(m["text"], 0) + v["count"]
        else:
            new_viol.append(v)
    for e in kn:
        # a listed finding is reported when its witness still fails or the exploration met it again
        if e["text"] in known_seen or e["text"] in matched:
            lines.append(f"KNOWN-FINDING: property={prop} {e['text']}")
            if e["text"] not in known_seen:
                known_seen.append(e["text"])
                lines.append(f"NOTE: the stored witness of this finding no longer fails (the exploration still meets it): refresh it in known_findings.json")
        else:
            lines.append(f"KNOWN-FINDING-GONE: property={prop} {e['text']}")
    reported = 0
    from concurrent.futures import ThreadPoolExecutor
    with ThreadPoolExecutor(8) as ex:
        confirmed = list(ex.map(lambda v: confirm(name, v["params"]), new_viol[:40]))
    for v, (violated, det, res) in zip(new_viol[:40], confirmed):
        if not det:
            agg["errors"].append(f"non-deterministic replay for {v['site']}/{v['kind']}: {str(res)[:300]}")
            continue
        if not violated:
            agg["errors"].append(f"violation did not reproduce in a fresh worker: {v['site']}/{v['kind']}")
            continue
        path = _write_replay(prop, name, v, tier, seed)
        lines.append(f"VIOLATION property={prop} replay={path}   # site={v['site']} kind={v['kind']} "
                     f"where={json.dumps(v['where'], sort_keys=True)} count={v['count']}")
        reported += 1
        exit_code = 1
    # 3. non-vacuity / harness errors
    rule, nv = drv.describe(tier, agg)
    for k, need in nv.items():
        got = agg["counters"].get(k, 0)
        if got < need:
            agg["errors"].append(f"vacuity: counter {k}={got} < required {need}")
    wall = time.time() - t0
    level = getattr(drv, "LEVEL", "exploration")
    capped = agg["counters"].get("cap_hit", 0) > 0
    cov = dict(evaluations=int(agg["evals"]), distinct_nontrivial=len(agg["hashes"]), rule=rule,
               samples=agg["samples"][:4] or [{"note": "no sample recorded"}],
               exhaustive=(not capped) and not agg["errors"] and not agg["deaths"],
               counters={k: agg["counters"][k] for k in sorted(agg["counters"])},
               tasks=len(tasks), worker_aborts=agg["deaths"][:20],
               known_findings_matched=matched, known_findings_reobserved=known_seen,
               violation_groups=[dict(site=v["site"], kind=v["kind"], where=v["where"], count=v["count"])
                                 for v in new_viol][:50],
               harness_errors=agg["errors"][:20],
               task_cpu_s={k: (round(v, 1) if v else v) for k, v in agg["task_cpu"].items()})
    if level == "model_checking":
        cov.update(states=int(agg["states"]), transitions=int(agg["transitions"]),
                   traces_validated_against_impl=int(agg["evals"]))
    ev = dict(property_id=prop, tier=tier, seed=seed, level=level, coverage=cov,
              assumptions=list(getattr(drv, "ASSUMPTIONS", [])), wall_s=round(wall, 2),
              violations=reported)
    evdir = os.environ.get("VERIF_EVIDENCE_DIR") or os.path.join(ROOT, "evidence")
    os.makedirs(evdir, exist_ok=True)
    with open(os.path.join(evdir, f"{prop}.json"), "w") as f:
        json.dump(ev, f, indent=1, sort_keys=True)
    for ln in lines:
        print(ln)
    print(f"[{prop}] evaluations={agg['evals']} distinct={len(agg['hashes'])} states={agg['states']} "
          f"transitions={agg['transitions']} violations={reported} known={len(known_seen)} "
          f"wall={wall:.1f}s", flush=True)
    if agg["errors"]:
        for e in agg["errors"][:20]:
            print("HARNESS-ERROR:", e, file=sys.stderr)
        return 2 if exit_code == 0 else exit_code
    return exit_code


def cmd_replay(path):
    with open(path) as f:
        rec = json.load(f)
    violated, det, res = confirm(rec["driver"], rec["params"])
    print(json.dumps(res, indent=1, sort_keys=True)[:6000])
    if not det:
        print("HARNESS-ERROR: replay is not deterministic", file=sys.stderr)
        return 2
    if violated:
        print(f"VIOLATION property={rec['property']} replay={path}")
        return 1
    print(f"OK property={rec['property']} replay={path} (no violation on this tree)")
    return 0


def cmd_selftest():
    import subprocess
    env = dict(os.environ, PYTHONPATH=ROOT)
    return subprocess.call([pool.PY, "-m", "mc.selftest"], env=env, cwd=ROOT)


def main():
    ap = argparse.ArgumentParser()
    ap.add_argument("what")
    ap.add_argument("arg", nargs="?")
    ap.add_argument("--tier", default=os.environ.get("VERIF_TIER", "quick"))
    a = ap.parse_args()
    if a.what == "replay":
        sys.exit(cmd_replay(a.arg))
    if a.what == "selftest":
        sys.exit(cmd_selftest())
    sys.exit(cmd_check(a.what.upper(), a.tier))


if __name__ == "__main__":
    main()
