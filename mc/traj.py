"""Engine B: all stopping points (k outer iterations, e inner epochs) of one deterministic trajectory.

Each node is one real solve() with budget (k, e); edges are the prefix relations
    (k, e) -> (k+1, e)          and, on the row k = 1,   (1, e) -> (1, e+1).
"""
import itertools

import numpy as np

from mc import registry as R


def grid(solver, tier, deep=False):
    """(ks, es): outer budgets and inner budgets (None = harness default inner budget)."""
    if tier == "quick" and not deep:
        ks = [0, 1, 2, 3, 4]
        es = [1, 2, 6, 7, 8, 14, None]
    else:
        ks = [0, 1, 2, 3, 4, 5, 6]
        es = [1, 2, 3, 5, 6, 7, 8, 12, 13, 14, 15, None]
    if solver not in R.INNER:
        es = [None]
        ks = ks + ([7, 8, 13, 14, 15] if solver == "GramCD" else [10, 30])
    return ks, es


def with_budget(comp, k, e, defaults):
    s = comp["solver"]["name"]
    kw = dict(defaults.get(s, {}))
    kw.update(comp["solver"].get("kw", {}))
    kw[R.OUTER[s]] = k
    if e is not None and s in R.INNER:
        kw[R.INNER[s]] = e
    c = dict(comp)
    c["solver"] = dict(name=s, kw=kw)
    return c


def explore(comp, ks, es, defaults, execute):
    """Returns nodes {(k, e): (comp_ke, result)} and the list of prefix edges [((k,e),(k2,e2))]."""
    nodes = {}
    for e in es:
        for k in ks:
            c = with_budget(comp, k, e, defaults)
            nodes[(k, e)] = (c, execute(c))
    edges = []
    for e in es:
        for a, b in zip(ks[:-1], ks[1:]):
            edges.append(((a, e), (b, e)))
    fin = [e for e in es if e is not None]
    if 1 in ks:
        for a, b in zip(fin[:-1], fin[1:]):
            edges.append(((1, a), (1, b)))
    return nodes, edges


def prefix_ok(ra, rb):
    """obj_out of the shorter budget must be a prefix of the longer one (validates the edge itself)."""
    if ra["status"] != "ok" or rb["status"] != "ok":
        return False
    oa, ob = ra["obj_out"], rb["obj_out"]
    return len(oa) <= len(ob) and np.array_equal(oa, ob[:len(oa)], equal_nan=True)
