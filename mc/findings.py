"""Known findings: committed list, read-only at run time (DESIGN §3)."""
import json
import os

ROOT = os.path.dirname(os.path.dirname(os.path.abspath(__file__)))
PATH = os.path.join(ROOT, "known_findings.json")


def load(prop):
    if not os.path.exists(PATH):
        return []
    with open(PATH) as f:
        data = json.load(f)
    return [e for e in data["findings"] if e["property"] == prop]


def _pred(p, v):
    if isinstance(p, dict) and "op" in p:
        op, ref = p["op"], p.get("value")
        if v is None:
            return False
        try:
            if op == "==":
                return v == ref
            if op == "!=":
                return v != ref
            if op == ">":
                return v > ref
            if op == ">=":
                return v >= ref
            if op == "<":
                return v < ref
            if op == "<=":
                return v <= ref
            if op == "in":
                return isinstance(ref, list) and v in ref
        except TypeError:
            return False
        return False
    return p == v


def matches(entry, viol):
    if entry.get("status") != "known":
        return False          # a 'fixed' entry suppresses nothing
    if entry["site"] != viol["site"] or entry["kind"] != viol["kind"]:
        return False
    w = viol.get("where") or {}
    return all(_pred(p, w.get(k)) for k, p in (entry.get("where") or {}).items())
