"""Composition registry: compile domains, problems per datafit kind, penalty grids, knob deviations.

Pure python / numpy (no skglm import) so the parent can plan with it.
"""
import itertools

import numpy as np

from mc import alphabet as A
from mc.ref import cert as RC
from mc.ref import loss as RL

KIND = {"Quadratic": "reg", "WeightedQuadratic": "reg", "Huber": "reg", "QuadraticGroup": "reg", "SqrtQuadratic": "reg",
        "Pinball": "reg", "Logistic": "clf", "LogisticGroup": "clf", "QuadraticSVC": "clf", "Poisson": "count",
        "Gamma": "pos", "Cox": "surv", "QuadraticMultiTask": "multi", None: "reg"}


def t32_reps(k):
    reps = [X for X in A.T_orbits(3, 2) if np.linalg.matrix_rank(X) == 2]
    step = max(1, len(reps) // k)
    return reps[::step][:k]


def solve_designs(tier):
    out = [("tall6x3", A.G_TALL), ("wide3x5", A.G_WIDE), ("sq4x4", A.G_SQ),
           ("wide-zeromid", A.Z()["wide3x5-zeromid"]), ("dup", A.K()["dup"]), ("scaled-tall", A.S()["scaled-tall"])]
    out += [("T32r%d" % i, X) for i, X in enumerate(t32_reps(2 if tier == "quick" else 12))]
    return out


LABELS = [np.array([1., -1., 1., 1., -1., -1., 1., -1.]), np.array([1., 1., -1., -1., 1., -1., -1., 1.])]
SURV = [np.column_stack([[1., 2., 2., 3., 2., 1., 3., 3.], [1., 1., 0., 1., 1., 0., 1., 0.]]),
        np.column_stack([[3., 1., 2., 1., 2., 3., 1., 2.], [1., 1., 1., 0., 1., 1., 0., 1.]])]


def targets(kind, X, tier):
    n = X.shape[0]
    reg = A.reg_targets(X)
    if kind == "reg":
        return [("generic", reg["generic"]), ("shifted", reg["shifted"])]
    if kind == "clf":
        return [("lab%d" % i, L[:n].copy()) for i, L in enumerate(LABELS) if len(set(L[:n])) == 2]
    if kind == "count":
        return [("counts", np.abs(np.round(reg["generic"]))), ("counts2", np.arange(n, dtype=float) % 3)]
    if kind == "pos":
        return [("pos", np.abs(reg["generic"]) + 0.25)]
    if kind == "surv":
        return [("surv%d" % i, S[:n].copy()) for i, S in enumerate(SURV) if S[:n, 1].sum() > 0]
    if kind == "multi":
        g = reg["generic"]
        return [("2task", np.column_stack([g, reg["generic2"]])), ("3task", np.column_stack([g, reg["shifted"], reg["generic2"]]))]
    raise KeyError(kind)


def datafit_specs(dname, X, tier):
    n, p = X.shape
    if dname is None:
        return [None]
    if dname == "WeightedQuadratic":
        # weights summing to more than n, and to (much) less than n: normalisation by n_samples vs by sum(sample_weights)
        return [dict(name=dname, sample_weights=[1.0, 2.0, 1.0, 3.0, 2.0, 1.0, 4.0, 1.0][:n]),
                dict(name=dname, sample_weights=[0.5, 0.25, 0.5, 0.125, 0.25, 0.5, 0.125, 0.25][:n])]
    if dname == "Huber":
        return [dict(name=dname, delta=1.0), dict(name=dname, delta=0.5)]          # (delta = 1 hides a forgotten factor delta)
    if dname == "Cox":
        return [dict(name=dname, use_efron=False), dict(name=dname, use_efron=True)]
    if dname == "Pinball":
        return [dict(name=dname, quantile_level=q) for q in ((0.3, 0.5) if tier == "quick" else (0.3, 0.5, 0.7))]
    if dname in ("QuadraticGroup", "LogisticGroup"):
        lays = A.GROUP_LAYOUTS[p]
        keys = list(lays)[: (2 if tier == "quick" else 4)]
        return [dict(name=dname, grp_ptr=lays[k][0], grp_indices=lays[k][1], layout=k) for k in keys]
    return [dict(name=dname)]


def lips_min(dspec, X, y):
    L = RL.lipschitz_coord(dspec or {"name": "Quadratic"}, X, y if np.ndim(y) == 1 else y[:, 0])
    if L is None:
        return None
    L = L[L > 0]
    return float(L.min()) if len(L) else None


WEIGHTS = [1.0, 2.0, 0.0, 0.5, 1.0, 3.0]


def penalty_specs(pname, dspec, X, y, fit_intercept, tier, fracs=None):
    """Penalty grid for one problem, alphas as fractions of the reference critical value."""
    p = X.shape[1]
    prob = dict(datafit=dspec, penalty=None, X=X, y=y, fit_intercept=fit_intercept)
    try:
        a0 = RC.alpha_crit(prob)
    except Exception:
        a0 = 1.0
    if not np.isfinite(a0) or a0 <= 1e-8:
        a0 = 1.0                # null model already stationary (zero / constant targets): any scale will do
    fr = fracs or ((0.3, 0.03) if tier == "quick" else (1.5, 0.5, 0.1, 0.01))
    out = []
    Lmin = lips_min(dspec, X, y)
    for f in fr:
        a = f * a0
        if pname == "L1":
            out += [dict(name="L1", alpha=a, positive=False)]
        elif pname == "L1+":
            out += [dict(name="L1", alpha=a, positive=True)]
        elif pname == "L1_plus_L2":
            out += [dict(name="L1_plus_L2", alpha=a / 0.5, l1_ratio=0.5, positive=False)]
            if tier != "quick":
                out += [dict(name="L1_plus_L2", alpha=a / 0.1, l1_ratio=0.1, positive=False)]
        elif pname == "L1_plus_L2+":
            out += [dict(name="L1_plus_L2", alpha=a / 0.5, l1_ratio=0.5, positive=True)]
        elif pname == "WeightedL1":
            out += [dict(name="WeightedL1", alpha=a, weights=WEIGHTS[:p], positive=False)]
        elif pname == "WeightedL1+":
            out += [dict(name="WeightedL1", alpha=a, weights=WEIGHTS[:p], positive=True)]
        elif pname in ("MCPenalty", "MCPenalty+", "WeightedMCPenalty", "WeightedMCPenalty+0", "SCAD"):
            g = 3.0
            wmax = 3.0 if pname.startswith("WeightedMCPenalty") else 1.0
            if Lmin is None or not (g * Lmin > wmax * (1 + 1e-9)) or (pname == "SCAD" and not (g - 1 > 1 / Lmin)):
                continue            # outside the well-posed step range of the non-convex prox
            if pname == "WeightedMCPenalty":
                out += [dict(name=pname, alpha=a, gamma=g, weights=[1.0, 2.0, 0.5, 3.0, 1.0, 2.0][:p], positive=False)]
            elif pname == "WeightedMCPenalty+0":       # positivity with an unpenalised (zero-weight) feature
                out += [dict(name="WeightedMCPenalty", alpha=a, gamma=g, weights=[1.0, 0.0, 2.0, 0.5, 0.0, 3.0][:p], positive=True)]
            elif pname == "SCAD":
                out += [dict(name=pname, alpha=a, gamma=g)]
            else:
                out += [dict(name="MCPenalty", alpha=a, gamma=g, positive=pname.endswith("+"))]
        elif pname in ("L0_5", "L2_3"):
            out += [dict(name=pname, alpha=a)]
        elif pname == "LogSumPenalty":
            out += [dict(name=pname, alpha=a, eps=1.0)]
        elif pname == "PositiveConstraint":
            if f == fr[0]:
                out += [dict(name=pname)]
        elif pname == "IndicatorBox":
            out += [dict(name=pname, alpha=c) for c in ((0.1, 1.0) if f == fr[0] else ())]
        elif pname == "L2":
            out += [dict(name="L2", alpha=a)]
        elif pname in ("L2_1", "L2_05"):
            out += [dict(name=pname, alpha=a)]
        elif pname in ("BlockMCPenalty", "BlockSCAD"):
            g = 3.0
            if Lmin is None or not (g * Lmin > 1 + 1e-9) or (pname == "BlockSCAD" and not (g - 1 > 1 / Lmin)):
                continue
            out += [dict(name=pname, alpha=a, gamma=g)]
        elif pname in ("WeightedGroupL2", "WeightedGroupL2+", "WeightedGroupL2+0", "WeightedGroupL2-0"):
            ptr, ind = dspec["grp_ptr"], dspec["grp_indices"]
            G = len(ptr) - 1
            wts = [0.0, 1.0, 0.5, 0.0, 1.5, 1.0] if pname.endswith("0") else [1.0, 2.0, 0.5, 1.0, 1.5, 1.0]
            out += [dict(name="WeightedGroupL2", alpha=a, weights=wts[:G], grp_ptr=ptr,
                         grp_indices=ind, positive="+" in pname)]
        else:
            raise KeyError(pname)
    return out


# ---- compile domains: (solver, datafit class or None, penalty key, storage) -----------------------------------------

def domains(tier, which="c01"):
    D = []
    cd_pens = ["L1", "L1+", "L1_plus_L2", "WeightedL1", "WeightedL1+", "MCPenalty", "WeightedMCPenalty", "SCAD", "L0_5", "L2_3",
               "LogSumPenalty", "PositiveConstraint"]
    for pn in cd_pens:
        D.append(("AndersonCD", "Quadratic", pn, "denseF"))
    for pn in ("L1", "WeightedL1", "MCPenalty", "L1+"):
        D.append(("AndersonCD", "Quadratic", pn, "csc"))
    for dn, pens in (("Logistic", ["L1", "L1_plus_L2"]), ("Huber", ["L1", "WeightedL1"]), ("WeightedQuadratic", ["L1"]),
                     ("QuadraticSVC", ["IndicatorBox"])):
        for pn in pens:
            D.append(("AndersonCD", dn, pn, "denseF"))
        D.append(("AndersonCD", dn, pens[0], "csc"))
    for dn, pens in (("Logistic", ["L1", "L1_plus_L2", "WeightedL1"]), ("Poisson", ["L1"]), ("Gamma", ["L1"]),
                     ("Cox", ["L1", "L1_plus_L2"]), ("Quadratic", ["L1", "MCPenalty"]), ("SqrtQuadratic", ["L1"])):
        for pn in pens:
            D.append(("ProxNewton", dn, pn, "denseF"))
    for dn in ("Logistic", "Poisson", "Cox"):
        D.append(("ProxNewton", dn, "L1", "csc"))
    for pn in ("L1", "L1_plus_L2", "WeightedL1", "MCPenalty", "L1+"):
        D.append(("GramCD", None, pn, "denseF"))
    D.append(("GramCD", None, "L1", "csc"))
    for pn in ("WeightedGroupL2", "WeightedGroupL2+"):
        D.append(("GroupBCD", "QuadraticGroup", pn, "denseF"))
        D.append(("GroupBCD", "QuadraticGroup", pn, "csc"))
    D.append(("GroupBCD", "LogisticGroup", "WeightedGroupL2", "denseF"))
    D.append(("GroupProxNewton", "LogisticGroup", "WeightedGroupL2", "denseF"))
    D.append(("GroupProxNewton", "LogisticGroup", "WeightedGroupL2+", "denseF"))
    for pn in ("L2_1", "L2_05", "BlockMCPenalty", "BlockSCAD"):
        D.append(("MultiTaskBCD", "QuadraticMultiTask", pn, "denseF"))
    D.append(("MultiTaskBCD", "QuadraticMultiTask", "L2_1", "csc"))
    for dn in ("Logistic", "Cox", "Quadratic", "Poisson"):
        D.append(("LBFGS", dn, "L2", "denseF"))
    D.append(("LBFGS", "Logistic", "L2", "csc"))
    return D


# ---- knobs ----------------------------------------------------------------------------------------------------

KNOBS = {   # name -> (default, alternatives)
    "AndersonCD": dict(tol=(1e-4, [1e-8, 1e-2]), p0=(10, [1, 2]), ws_strategy=("subdiff", ["fixpoint"]),
                       fit_intercept=(True, [False])),
    "ProxNewton": dict(tol=(1e-4, [1e-8, 1e-2]), p0=(10, [1, 2]), ws_strategy=("subdiff", ["fixpoint"]),
                       fit_intercept=(True, [False])),
    "GroupBCD": dict(tol=(1e-4, [1e-8, 1e-2]), p0=(10, [1, 2]), ws_strategy=("subdiff", ["fixpoint"]),
                     fit_intercept=(False, [True])),
    "GroupProxNewton": dict(tol=(1e-4, [1e-8, 1e-2]), p0=(10, [1, 2]), fit_intercept=(False, [True])),
    "MultiTaskBCD": dict(tol=(1e-6, [1e-9, 1e-3]), p0=(10, [1, 2]), ws_strategy=("subdiff", ["fixpoint"]),
                         fit_intercept=(True, [False]), use_acc=(True, [False])),
    "GramCD": dict(tol=(1e-4, [1e-8, 1e-2]), greedy_cd=(True, [False]), use_acc=(False, [True])),
    "LBFGS": dict(tol=(1e-4, [1e-8, 1e-2])),
    "FISTA": dict(tol=(1e-4, [1e-8, 1e-2]), opt_strategy=("subdiff", ["fixpoint"])),
    "PDCD_WS": dict(tol=(1e-6, [1e-9, 1e-3]), p0=(100, [1, 2])),
}
OUTER = {"AndersonCD": "max_iter", "ProxNewton": "max_iter", "GroupBCD": "max_iter", "GroupProxNewton": "max_iter",
         "MultiTaskBCD": "max_iter", "GramCD": "max_iter", "LBFGS": "max_iter", "FISTA": "max_iter", "PDCD_WS": "max_iter"}
INNER = {"AndersonCD": "max_epochs", "GroupBCD": "max_epochs", "MultiTaskBCD": "max_epochs", "PDCD_WS": "max_epochs",
         "ProxNewton": "max_pn_iter", "GroupProxNewton": "max_pn_iter"}


def budgets(solver, tier, small=False):
    ks = [0, 1, 2, 3] if small else [0, 1, 2, 3, 6]
    es = [1, 2, 7, 8] if small else [1, 2, 6, 7, 8, 13, 14]
    if solver not in INNER:
        return [{OUTER[solver]: k} for k in ks + ([7, 8, 14] if solver == "GramCD" else [])]
    out = [{OUTER[solver]: k} for k in ks]
    out += [{OUTER[solver]: k, INNER[solver]: e} for k in (1, 2) for e in es]
    return out


def starts(p, fit_intercept, tier, multitask=0):
    """Warm-start set W (coefficients; a non-zero intercept is appended when fitted)."""
    vals = (-1.0, 0.0, 2.0)
    if p <= 3:
        W = [np.array(w) for w in itertools.product(vals, repeat=p)]
        if tier == "quick":
            W = W[1::5]
    else:
        base = np.array([2.0, 0.0, -1.0, 0.0, 2.0, -1.0])
        W = [base[:p], np.roll(base, 1)[:p], np.full(p, 2.0), np.eye(p)[p - 1] * -1.0]
    out = []
    for w in W:
        if not np.any(w):
            continue
        if fit_intercept:
            w = np.append(w, 0.5)
        if multitask:
            w = np.column_stack([w * (t + 1) for t in range(multitask)])
        out.append(w)
    return out


def knob_settings(solver, d, tier, p, multitask=0, with_budget=True, with_start=True):
    """All knob assignments with at most d deviations from the defaults.  Each is
    dict(kw=..., start=index|None, dev=number of deviations).  Budgets / starts count one deviation each."""
    K = KNOBS[solver]
    axes = []
    for name, (default, alts) in K.items():
        axes.append([("kw", name, v) for v in alts])
    if with_budget:
        axes.append([("budget", None, b) for b in budgets(solver, tier, small=(tier == "quick"))])
    if with_start and solver != "LBFGS":
        axes.append([("start", None, i) for i in range(8)])
    out = [dict(kw={}, start=None, dev=0)]
    for k in range(1, d + 1):
        for combo in itertools.combinations(range(len(axes)), k):
            for choice in itertools.product(*[axes[i] for i in combo]):
                kw, start = {}, None
                for kind, name, v in choice:
                    if kind == "kw":
                        kw[name] = v
                    elif kind == "budget":
                        kw.update(v)
                    else:
                        start = v
                out.append(dict(kw=kw, start=start, dev=k))
    return out


EXP_BASED = ("Logistic", "LogisticGroup", "Poisson", "Gamma", "Cox")


def start_in_range(dname, X, w0, fit_intercept):
    """Warm starts of exp-based losses must keep |X w0 + b| <= 30: beyond, float64 saturates (Hessian underflows to 0,
    exp overflows) and no Newton-type model exists; same range rule as C06."""
    if dname not in EXP_BASED or w0 is None:
        return True
    w0 = np.asarray(w0, dtype=float)
    p = X.shape[1]
    u = X @ w0[:p] + (w0[p] if fit_intercept else 0.0)
    return bool(np.max(np.abs(u)) <= 30.0)


def fix_kw(solver, dname, kw):
    """Datafit-imposed knob values: the SVC dual has no intercept (QuadraticSVC offers no intercept step and
    LinearSVC.fit always passes fit_intercept=False)."""
    kw = dict(kw)
    if dname == "QuadraticSVC" and "fit_intercept" in KNOBS.get(solver, {}):
        kw["fit_intercept"] = False
    return kw
