"""setup_cmd: checks the environment and the reference models (no skglm result is trusted here)."""
import os
import sys

import numpy as np


def main():
    repo = os.environ.get("VERIF_REPO", "/repo")
    sys.path.insert(0, repo)
    import skglm
    assert os.path.realpath(skglm.__file__).startswith(os.path.realpath(repo) + os.sep), skglm.__file__
    from mc.ref import loss, pen, prox
    print("ref.loss derivative self-test, worst error", loss.selftest())
    # one-sided derivatives of every scalar penalty vs one-sided differences of its value
    specs = [dict(name="L1", alpha=.7), dict(name="L1_plus_L2", alpha=.7, l1_ratio=.4),
             dict(name="MCPenalty", alpha=.7, gamma=3.), dict(name="SCAD", alpha=.7, gamma=3.),
             dict(name="WeightedMCPenalty", alpha=.7, gamma=3., weights=[2.]),
             dict(name="LogSumPenalty", alpha=.7, eps=.3), dict(name="L0_5", alpha=.7), dict(name="L2_3", alpha=.7)]
    h = 1e-7
    for sp in specs:
        for u in (-2.5, -1.0, -0.3, 0.3, 0.7, 1.4, 2.1, 2.5):
            d = pen.dradial(sp, abs(u)) * np.sign(u)
            num = (float(pen.phi(sp, u + h)) - float(pen.phi(sp, u - h))) / (2 * h)
            assert abs(d - num) < 1e-5, (sp, u, d, num)
    # brute-force prox vs soft-thresholding closed form
    x = np.linspace(-3, 3, 101)
    F, u = prox.scalar_min(dict(name="L1", alpha=.7), x, 0.5)
    st = np.sign(x) * np.maximum(np.abs(x) - .35, 0)
    assert np.abs(u - st).max() < 1e-6, np.abs(u - st).max()
    # SLOPE enumeration vs L1 closed form when alphas are constant
    xs = np.array([1.5, -0.2, 0.9])
    f = prox.slope_min([.5, .5, .5], xs, 1.0)
    st = np.sign(xs) * np.maximum(np.abs(xs) - .5, 0)
    assert abs(f - (0.5 * np.sum((st - xs) ** 2) + .5 * np.abs(st).sum())) < 1e-12
    print("selftest ok; skglm at", skglm.__file__)


if __name__ == "__main__":
    main()
