"""Bounded exhaustive exploration machinery for skglm (see /verif/DESIGN.md)."""
