"""C20 — compiled kernels stay inside their arrays (engine P, differential: NUMBA_BOUNDSCHECK=1 vs unchecked workers)."""
import numpy as np

from mc import alphabet as A
from mc import registry as R
from mc.drivers import c13

PROPERTY = "C20"
LEVEL = "exploration"
ASSUMPTIONS = [
    "NUMBA_BOUNDSCHECK is numba's own switch (set in the environment of one half of the workers before numba is imported), "
    "not a source hook; each cell is executed in a checked and in an unchecked worker and the two results are compared to "
    "1e-10 relative (the inserted checks may change vectorisation of fastmath helpers); two successful runs that differ more but agree at "
    "the level of the solver tolerance (objective 1e-6, coefficients 1e-3 relative) are accepted: a rounding-level difference can flip a "
    "working-set tie, whereas an out-of-bounds index always raises in the checked run",
    "cells = covering subset of the accepted compositions of C13 (all accepted cells in thorough) x data shapes {6x3, 3x5 (grouped components only in quick)} x "
    "group layouts {contiguous, reversed, interleaved} x weighted penalties x fit_intercept; on the 3x5 shape additionally p0 = 1 "
    "(working sets smaller than the feature / group count, 5 reversed singleton groups) and a positive group penalty with a group "
    "larger than the number of groups",
]

DESIGNS = {"tall6x3": A.G_TALL, "wide3x5": A.G_WIDE}
LAYOUTS = {3: [([0, 2, 3], [0, 1, 2]), ([0, 1, 3], [2, 1, 0]), ([0, 2, 3], [0, 2, 1])],
           5: [([0, 2, 5], [0, 1, 2, 3, 4]), ([0, 3, 5], [4, 3, 2, 1, 0]), ([0, 2, 3, 5], [0, 3, 1, 2, 4])]}


def comps(tier):
    """(key, comp) for every C20 cell."""
    from mc import comp as C
    cells = c13.accepted_cells()
    if tier == "quick":
        cells = c13.covering(cells)
    out = []
    for cell in sorted(cells, key=lambda c: (c[0], str(c[1]), c[2], c[3], c[4])):
        base = c13.cell_comp(cell)
        dname, pname = cell[1], cell[2]
        for xid, X in DESIGNS.items():
            kind = R.KIND[dname]
            y = R.targets(kind, X, "quick")[0][1]
            p = X.shape[0] if dname == "QuadraticSVC" else X.shape[1]
            grouped = (dname in ("QuadraticGroup", "LogisticGroup")) or pname in ("WeightedGroupL2", "WeightedL1GroupL2")
            lays = LAYOUTS[X.shape[1]] if grouped else [None]
            if tier == "quick" and xid == "wide3x5" and not grouped and dname != "QuadraticSVC":
                continue          # (the SVC dual is kept: its design is transposed, n_features > n_samples only happens on the wide shape)
            for li, lay in enumerate(lays):
                comp = dict(base, X=X.tolist(), y=y.tolist(), xid=xid)
                ps = c13.pspec_for(pname, p)
                ds = c13.dspec_for(dname)
                if ds is not None and ds["name"] == "WeightedQuadratic":
                    ds["sample_weights"] = [1.0, 2.0, 1.0, 3.0, 2.0, 1.0][:X.shape[0]]
                if lay is not None:
                    G = len(lay[0]) - 1
                    if "grp_ptr" in ps:
                        ps.update(grp_ptr=lay[0], grp_indices=lay[1])
                        if "weights" in ps:
                            ps["weights"] = [1.0, 2.0, 0.5][:G]
                        if "weights_groups" in ps:
                            ps["weights_groups"] = [1.0, 2.0, 0.5][:G]
                    if ds is not None and "grp_ptr" in ds:
                        ds.update(grp_ptr=lay[0], grp_indices=lay[1])
                comp.update(penalty=ps, datafit=ds)
                key = "|".join(map(str, cell)) + f"|{xid}|L{li}"
                out.append((key, comp))
                sname = comp["solver"]["name"]
                if "p0" in R.KNOBS.get(sname, {}) and not grouped and xid == "tall6x3":
                    # every penalty with a working set of one feature: index j of the feature vs position idx in the working set
                    out.append((key + "|p0=1", dict(comp, solver=dict(name=sname, kw=dict(comp["solver"]["kw"], p0=1)))))
                    w0 = [0.0, 0.0, 1.5] + ([0.25] if comp["solver"]["kw"].get("fit_intercept") else [])
                    if sname != "LBFGS" and dname not in ("QuadraticSVC", "QuadraticMultiTask", "Cox"):
                        # ... and from a warm start supported on the last feature only (the working set is {last feature})
                        out.append((key + "|p0=1|warm", dict(comp, solver=dict(name=sname, kw=dict(comp["solver"]["kw"], p0=1)), w_init=w0)))
                        # ... the same with that last feature an all-zero column (zero-curvature branches of the epochs)
                        Xz = A.Z()["tall6x3-zerolast"]
                        out.append((key + "|p0=1|warm|zerolast", dict(comp, X=Xz.tolist(), xid="tall6x3-zerolast",
                                                                      solver=dict(name=sname, kw=dict(comp["solver"]["kw"], p0=1)), w_init=w0)))
                    if ps.get("positive") is False:
                        # the positivity option of the same penalty (other branches of prox / score), working set of one feature
                        out.append((key + "|p0=1|positive", dict(comp, penalty=dict(ps, positive=True),
                                                                 solver=dict(name=sname, kw=dict(comp["solver"]["kw"], p0=1)))))
                if "p0" in R.KNOBS.get(sname, {}) and (grouped or pname in ("L1", "WeightedL1")) and xid == "wide3x5":
                    pass
                if "p0" in R.KNOBS.get(sname, {}) and not grouped and xid == "tall6x3" and ps.get("positive") is False and dname == "Quadratic":
                    # positivity, 5 features, working sets of two features {the supported one, a zero one at any index}: a zero coefficient at
                    # feature index j >= len(ws) exercises every 'w_j == 0' branch of the scores with idx != j
                    Xw5 = DESIGNS["wide3x5"]
                    y5 = R.targets(kind, Xw5, "quick")[0][1]
                    for i in range(5):
                        w5 = [0.0] * 5 + ([0.25] if comp["solver"]["kw"].get("fit_intercept") else [])
                        w5[i] = 1.5
                        out.append((key + f"|p0=1|positive|wide|e{i}", dict(comp, X=Xw5.tolist(), y=y5.tolist(), xid="wide3x5", penalty=dict(c13.pspec_for(pname, 5), positive=True),
                                                                            solver=dict(name=sname, kw=dict(comp["solver"]["kw"], p0=1)), w_init=w5)))
                if "p0" in R.KNOBS.get(sname, {}) and (grouped or pname in ("L1", "WeightedL1")) and xid == "wide3x5":
                    # working sets strictly smaller than the number of features / groups
                    c1 = dict(comp, solver=dict(name=sname, kw=dict(comp["solver"]["kw"], p0=1)))
                    if grouped:
                        single = ([0, 1, 2, 3, 4, 5], [4, 3, 2, 1, 0])
                        ps1, ds1 = dict(ps), (dict(ds) if ds else ds)
                        if "grp_ptr" in ps1:
                            ps1.update(grp_ptr=single[0], grp_indices=single[1])
                            for wk in ("weights", "weights_groups"):
                                if wk in ps1:
                                    ps1[wk] = [1.0, 2.0, 0.5, 1.5, 1.0]
                        if ds1 is not None and "grp_ptr" in ds1:
                            ds1.update(grp_ptr=single[0], grp_indices=single[1])
                        c1.update(penalty=ps1, datafit=ds1)
                    out.append((key + "|p0=1", c1))
                if pname == "WeightedGroupL2" and lay is not None and xid == "wide3x5":
                    # positive group penalty, an active non-negative group larger than the number of groups
                    big = ([0, 4, 5], [0, 1, 2, 3, 4])
                    ps2 = dict(ps, positive=True, grp_ptr=big[0], grp_indices=big[1], weights=[1.0, 2.0])
                    ds2 = dict(ds, grp_ptr=big[0], grp_indices=big[1]) if ds is not None and "grp_ptr" in ds else ds
                    ypos = (X @ np.array([1.0, 0.5, 2.0, 1.0, 0.0])) if kind == "reg" else y
                    out.append((key + "|pos", dict(comp, penalty=ps2, datafit=ds2, y=ypos.tolist())))
    return out


def plan(tier, seed):
    n = 16 if tier == "quick" else 32
    tasks = []
    for k in range(n):
        tasks.append(dict(op="run", chunk=k, nchunks=n, env={"NUMBA_BOUNDSCHECK": "1"}, mode="bc", track=True, weight=6,
                          cpu_limit=120, compile_allowance=600))
        tasks.append(dict(op="run", chunk=k, nchunks=n, env={"NUMBA_BOUNDSCHECK": "0"}, mode="nobc", track=True, weight=5,
                          cpu_limit=120, compile_allowance=600))
    return tasks


def summarize(res):
    from mc.core import fhex
    if res["status"] != "ok":
        return dict(status="exc", exc=res["exc"]["type"], message=res["exc"]["message"][:200], frame=res["exc"]["frame"])
    return dict(status="ok", w=res["w"].tolist(), stop=float(res["stop_crit"]), n_hist=len(res["obj_out"]),
                last=float(res["obj_out"][-1]) if len(res["obj_out"]) else None)


def run(task, ctx):
    from mc import comp as C
    import os
    assert os.environ.get("NUMBA_BOUNDSCHECK") == task["env"]["NUMBA_BOUNDSCHECK"]
    cells = [kc for i, kc in enumerate(comps(ctx.tier)) if i % task["nchunks"] == task["chunk"]]
    for idx, (key, comp) in enumerate(cells):
        if idx < task.get("start", 0):
            continue
        ctx.checkpoint(idx)
        res = C.execute(comp)
        summ = summarize(res)
        ctx.record(f"{key}|{task['mode']}", summ)
        ctx.obs(summ, nontrivial=summ["status"] == "ok")
        ctx.count("cells_" + task["mode"])
        if task["mode"] == "bc" and summ["status"] == "exc" and summ["exc"] in ("IndexError",):
            ctx.count("index_errors_under_check")
        if idx == 0:
            ctx.sample(dict(key=key, mode=task["mode"], comp={k: comp[k] for k in ("solver", "datafit", "penalty", "storage", "xid")}))


def on_abort(task, idx, status, detail, ctx):
    cells = [kc for i, kc in enumerate(comps(ctx.tier)) if i % task["nchunks"] == task["chunk"]]
    key = cells[idx][0]
    ctx.record(f"{key}|{task['mode']}", dict(status=status, detail=str(detail)))
    ctx.count("cells_" + task["mode"])


def compare(a, b):
    """a: checked, b: unchecked summaries.  Returns list of (kind, observed, expected)."""
    out = []
    if a["status"] == "exc" and a.get("exc") in ("IndexError",) :
        out.append(("index_error_under_boundscheck", a, b))
        return out
    if a["status"] != b["status"]:
        out.append(("outcome_differs", a, b))
        return out
    if a["status"] == "exc":
        if a.get("exc") != b.get("exc"):
            out.append(("exception_differs", a, b))
        if "broadcast" in (a.get("message") or ""):
            out.append(("broadcast_error", a, b))
        return out
    if a["status"] != "ok":
        return out
    wa, wb = np.array(a["w"], dtype=float), np.array(b["w"], dtype=float)
    fin = np.abs(wb[np.isfinite(wb)])
    scale = 1 + (float(fin.max()) if fin.size else 0.0)           # (non-finite entries must match as such: equal_nan)
    if wa.shape != wb.shape or not np.allclose(wa, wb, rtol=1e-10, atol=1e-10 * scale, equal_nan=True):
        # the inserted checks change vectorisation, hence rounding; with a working set of one feature a rounding-level difference can flip
        # a tie of the working-set selection and send the two runs along different trajectories to the same tolerance-level solution.
        # An out-of-bounds index itself always raises in the checked run, so such a pair is accepted when both runs succeeded and agree
        # at the level of the solver tolerance (objective to 1e-6, coefficients to 1e-3 relative).
        la, lb = a.get("last"), b.get("last")
        same_level = (wa.shape == wb.shape and np.all(np.isfinite(wa)) and np.all(np.isfinite(wb)) and la is not None and lb is not None
                      and np.isfinite(la) and np.isfinite(lb) and abs(la - lb) <= 1e-6 * (1 + abs(lb))
                      and float(np.max(np.abs(wa - wb))) <= 1e-3 * (1 + float(np.max(np.abs(wb)))))
        if not same_level:
            out.append(("result_depends_on_bounds_checking", a, b))
    return out


def post(agg, ctx):
    rec = agg.get("records", {})
    keys = sorted({k.rsplit("|", 1)[0] for k in rec})
    comp_by_key = None
    for key in keys:
        a, b = rec.get(key + "|bc"), rec.get(key + "|nobc")
        if a is None or b is None:
            continue
        ctx.count("pairs_compared")
        for kind, got, exp in compare(a, b):
            if comp_by_key is None:
                comp_by_key = dict(comps(ctx.tier))
            comp = comp_by_key[key]
            ctx.violation(f"cell:{comp['solver']['name']}|{(comp['datafit'] or {}).get('name')}|{comp['penalty']['name']}", kind,
                          dict(op="pair", key=key, comp=comp), got, exp,
                          where=dict(solver=comp["solver"]["name"], datafit=(comp["datafit"] or {}).get("name"),
                                     penalty=comp["penalty"]["name"], storage=comp["storage"],
                                     fit_intercept=bool(comp["solver"]["kw"].get("fit_intercept", False))))


def replay(params):
    """Runs the cell in this worker's environment and, in a child worker with the opposite setting, compares."""
    import os
    from mc import comp as C
    from mc import pool
    comp = params["comp"]
    if params.get("leaf"):
        return dict(violated=False, summary=summarize(C.execute(comp)))
    outs = {}
    for mode, val in (("bc", "1"), ("nobc", "0")):
        m = pool.replay_once("c20", dict(params, leaf=True), {"NUMBA_BOUNDSCHECK": val})
        outs[mode] = m["replay"]["summary"] if "replay" in m else dict(status="died", detail=str(m))
    v = compare(outs["bc"], outs["nobc"])
    # the unchecked run of a kernel that reads outside its arrays is not reproducible by nature: only its status is reported
    return dict(violated=bool(v), kinds=[x[0] for x in v], checked=outs["bc"], unchecked_status=outs["nobc"].get("status"))


def describe(tier, agg):
    rule = ("every cell of the C13 covering set (all accepted cells in thorough) x {6x3, 3x5} x 3 group layouts (contiguous, reversed, "
            "interleaved) for grouped components x intercept, executed once in a worker started with NUMBA_BOUNDSCHECK=1 and once "
            "without; a checked run raising IndexError, different outcomes, or results differing by more than 1e-10 (and not merely two "
            "tolerance-level solutions of the same problem) are violations; "
            "distinct = distinct successful result summaries")
    return rule, {"pairs_compared": 100, "cells_bc": 100, "cells_nobc": 100}
