"""C14 — general components reduce to the simpler ones they generalise (engine P)."""
import itertools

import numpy as np

from mc import alphabet as A
from mc import registry as R
from mc.drivers import c07
from mc.ref import cert as RC

PROPERTY = "C14"
LEVEL = "exploration"
ASSUMPTIONS = [
    "component level: the general and the special component are both real compiled skglm objects; their value / prox / score / gradient / "
    "constant outputs are compared on the C06-C08 grids to 1e-10 relative (exact reductions) or 1e-5 (gamma = 2^20, delta = 2^20 limits)",
    "solution level: both configurations are fitted at tol 1e-10 and compared through the optimality-gap theorem in both directions "
    "(on the special-case objective), or coefficient-wise for the limit cases",
    "differential oracle only: no reference model is needed, the simpler component is the oracle of the general one",
]
RT = 1e-10


def close(a, b, tol=RT):
    a, b = np.asarray(a, dtype=float), np.asarray(b, dtype=float)
    if a.shape != b.shape:
        return False
    fin = np.isfinite(a) & np.isfinite(b)
    if not np.array_equal(np.isfinite(a), np.isfinite(b)) or not np.array_equal(a[~fin], b[~fin], equal_nan=True):
        return False
    return bool(np.all(np.abs(a[fin] - b[fin]) <= tol * np.maximum(1.0, np.maximum(np.abs(a[fin]), np.abs(b[fin])))))


XS = np.unique(np.concatenate([np.linspace(-4, 4, 161), [0.0, 1e-9, -1e-9, 0.35, 0.5, 0.7, 1.5, 2.1, 4.5]]))
STEPS = (0.1, 0.5, 1.0, 2.0)
PAIRS = ["weightedL1_unit", "weightedMCP_unit", "enet_ratio1", "group_singletons", "row_onetask", "slope_constant", "mcp_gamma_inf",
         "huber_delta_inf", "wquad_unit", "wquad_integer_replication", "cox_no_ties", "group_datafits", "multitask_onetask", "sparse_group_reductions"]


NPARTS = 24


def plan(tier, seed):
    return [dict(op="pair", pair=p, weight=2) for p in PAIRS] + [dict(op="solutions", part=k, weight=4) for k in range(4 if tier == "quick" else NPARTS)]


def pen_pair_scalar(ctx, name, gen_spec, spe_spec, P, tol=RT, gsteps=STEPS):
    """Compare two separable penalties on (x, step, j) and (w, grad) grids."""
    from mc import build
    g, s = build.penalty(gen_spec), build.penalty(spe_spec)
    site = f"reduction:{name}"
    for j in range(P):
        for st in gsteps:
            for x in XS:
                a, b = g.prox_1d(float(x), float(st), j), s.prox_1d(float(x), float(st), j)
                ctx.obs(a, nontrivial=(a != 0 and a != x))
                if not close(a, b, tol):
                    ctx.violation(site, "prox_differs", dict(op="pen_scalar", name=name, gen=gen_spec, spe=spe_spec, j=j, s=st, x=float(x).hex(), tol=tol), a, b,
                                  where=dict(pair=name))
    ws = np.array([0.0, 0.3, -0.3, 1.0, -2.0, 5.0, 1e-9])
    gr = np.array([0.0, 0.2, -0.5, 1.0, -1.0, 3.0])
    for wv in itertools.product(ws, repeat=1):
        for j in range(P):
            w = np.zeros(P)
            w[j] = wv[0]
            for gv in gr:
                grad = np.full(P, 0.25)
                grad[j] = gv
                allf = np.arange(P)
                a, b = g.subdiff_distance(w, grad, allf), s.subdiff_distance(w, grad, allf)
                ctx.obs(a, nontrivial=bool(np.any(a)))
                if not close(a, b, tol):
                    ctx.violation(site, "score_differs", dict(op="pen_score", name=name, gen=gen_spec, spe=spe_spec, w=w.tolist(), grad=grad.tolist(), tol=tol),
                                  a, b, where=dict(pair=name))
    for w in itertools.product((-2.0, 0.0, 0.5, 3.0), repeat=min(P, 3)):
        w = np.array(list(w) + [0.0] * (P - len(w)))
        a, b = g.value(w), s.value(w)
        ctx.obs(a, nontrivial=a != 0)
        if not close(a, b, tol):
            ctx.violation(site, "value_differs", dict(op="pen_value", name=name, gen=gen_spec, spe=spe_spec, w=w.tolist(), tol=tol), a, b, where=dict(pair=name))
    ctx.count("pairs_compared")


def run_pair(pair, ctx):
    from mc import build
    site = f"reduction:{pair}"
    if pair == "weightedL1_unit":
        for a in (0.5, 1.5):
            for pos in (False, True):
                pen_pair_scalar(ctx, pair, dict(name="WeightedL1", alpha=a, weights=[1.0] * 4, positive=pos), dict(name="L1", alpha=a, positive=pos), 4)
    elif pair == "weightedMCP_unit":
        for a in (0.5, 1.5):
            for pos in (False, True):
                pen_pair_scalar(ctx, pair, dict(name="WeightedMCPenalty", alpha=a, gamma=3.0, weights=[1.0] * 4, positive=pos),
                                dict(name="MCPenalty", alpha=a, gamma=3.0, positive=pos), 4)
    elif pair == "enet_ratio1":
        for a in (0.5, 1.5):
            for pos in (False, True):
                pen_pair_scalar(ctx, pair, dict(name="L1_plus_L2", alpha=a, l1_ratio=1.0, positive=pos), dict(name="L1", alpha=a, positive=pos), 3)
    elif pair == "mcp_gamma_inf":
        for a in (0.5, 1.5):
            pen_pair_scalar(ctx, pair, dict(name="MCPenalty", alpha=a, gamma=2.0 ** 20, positive=False), dict(name="L1", alpha=a, positive=False), 2, tol=1e-5)
    elif pair == "group_singletons":
        P = 4
        for a in (0.5, 1.5):
            for pos in (False, True):
                wts = [1.0, 2.0, 0.5, 3.0]
                G = build.penalty(dict(name="WeightedGroupL2", alpha=a, weights=wts, grp_ptr=[0, 1, 2, 3, 4], grp_indices=[0, 1, 2, 3], positive=pos))
                S = build.penalty(dict(name="WeightedL1", alpha=a, weights=wts, positive=pos))
                for j in range(P):
                    for st in STEPS:
                        for x in XS[::2]:
                            u, v = G.prox_1group(np.array([x]), float(st), j), S.prox_1d(float(x), float(st), j)
                            ctx.obs(u, nontrivial=bool(u[0] != 0))
                            if not close(u[0], v):
                                ctx.violation(site, "prox_differs", dict(op="singleton", alpha=a, positive=pos, j=j, s=st, x=float(x).hex()), u.tolist(), v, where=dict(pair=pair))
                for w in itertools.product((-2.0, 0.0, 0.5), repeat=P):
                    w = np.array(w)
                    for gr in ((0.2, -0.5, 1.0, -3.0), (0.0, 0.0, 0.0, 0.0), (-1.0, 2.0, 0.4, -0.1)):
                        gr = np.array(gr)
                        u, v = G.subdiff_distance(w, gr, np.arange(P)), S.subdiff_distance(w, gr, np.arange(P))
                        ctx.obs(u, nontrivial=bool(np.any(u)))
                        if not close(u, v):
                            ctx.violation(site, "score_differs", dict(op="singleton_score", alpha=a, positive=pos, w=w.tolist(), grad=gr.tolist()), u, v, where=dict(pair=pair))
                    if not close(G.value(w), S.value(w)):
                        ctx.violation(site, "value_differs", dict(op="singleton_value", alpha=a, positive=pos, w=w.tolist()), G.value(w), S.value(w), where=dict(pair=pair))
        ctx.count("pairs_compared")
    elif pair == "row_onetask":
        for rowname, scal in (("L2_1", dict(name="L1", positive=False)), ("BlockMCPenalty", dict(name="MCPenalty", gamma=3.0, positive=False)),
                              ("BlockSCAD", dict(name="SCAD", gamma=3.0)), ("L2_05", dict(name="L0_5"))):
            for a in (0.5, 1.5):
                rs = dict(name=rowname, alpha=a)
                if "gamma" in scal:
                    rs["gamma"] = scal["gamma"]
                Rw, Sc = build.penalty(rs), build.penalty(dict(scal, alpha=a))
                for st in c07.steps_for(rs, 0, "quick"):
                    for x in XS[::2]:
                        if x == 0:
                            continue
                        u, v = Rw.prox_1feat(np.array([x]), float(st), 0), Sc.prox_1d(float(x), float(st), 0)
                        ctx.obs(u, nontrivial=bool(u[0] != 0))
                        if not close(u[0], v, 1e-9):
                            ctx.violation(site, "prox_differs", dict(op="row", row=rs, s=st, x=float(x).hex()), u.tolist(), v, where=dict(pair=pair, row=rowname))
                for w in itertools.product((-2.0, 0.0, 0.5), repeat=3):
                    W = np.array(w)[:, None]
                    if not close(Rw.value(W), Sc.value(np.array(w))):
                        ctx.violation(site, "value_differs", dict(op="row_value", row=rs, w=list(w)), Rw.value(W), Sc.value(np.array(w)), where=dict(pair=pair, row=rowname))
                    gr = np.array([[0.3], [-0.7], [1.2]])
                    u, v = Rw.subdiff_distance(W, gr, np.arange(3)), Sc.subdiff_distance(np.array(w), gr.ravel(), np.arange(3))
                    if not close(u, v, 1e-9):
                        ctx.violation(site, "score_differs", dict(op="row_score", row=rs, w=list(w)), u, v, where=dict(pair=pair, row=rowname))
        ctx.count("pairs_compared")
    elif pair == "sparse_group_reductions":
        # WeightedL1GroupL2 with zero group weights == weighted L1 ; with zero feature weights == weighted group L2 (any layout)
        layouts = [c07.GROUPS6, c07.GROUPS6R, dict(grp_ptr=[0, 2, 4, 6], grp_indices=[3, 0, 4, 1, 5, 2]), dict(grp_ptr=[0, 1, 2, 3, 4, 5, 6], grp_indices=[5, 3, 1, 4, 2, 0])]
        wf = [1.0, 2.0, 3.0, 0.5, 0.0, 1.5]
        for a in (0.5, 1.5):
            for lay in layouts:
                G = len(lay["grp_ptr"]) - 1
                groups = [lay["grp_indices"][lay["grp_ptr"][g]:lay["grp_ptr"][g + 1]] for g in range(G)]
                SG1 = build.penalty(dict(name="WeightedL1GroupL2", alpha=a, weights_groups=[0.0] * G, weights_features=wf, **lay))
                WL = build.penalty(dict(name="WeightedL1", alpha=a, weights=wf, positive=False))
                wg = [1.0, 2.0, 0.5, 3.0, 1.5, 0.25][:G]
                SG2 = build.penalty(dict(name="WeightedL1GroupL2", alpha=a, weights_groups=wg, weights_features=[0.0] * 6, **lay))
                WG = build.penalty(dict(name="WeightedGroupL2", alpha=a, weights=wg, positive=False, **lay))
                for g, idx in enumerate(groups):
                    for st in STEPS:
                        for x in c07.BLOCK_VECS[len(idx)]:
                            u = SG1.prox_1group(x.copy(), float(st), g)
                            v = np.array([WL.prox_1d(float(x[k]), float(st), int(j)) for k, j in enumerate(idx)])
                            ctx.obs(u, nontrivial=bool(np.any(u)))
                            if not close(u, v):
                                ctx.violation(site, "prox_differs", dict(op="sparse_group", alpha=a, lay=lay, g=g, s=st, x=x.tolist(), which="zero group weights vs WeightedL1"),
                                              u.tolist(), v.tolist(), where=dict(pair=pair))
                            u2, v2 = SG2.prox_1group(x.copy(), float(st), g), WG.prox_1group(x.copy(), float(st), g)
                            if not close(u2, v2):
                                ctx.violation(site, "prox_differs", dict(op="sparse_group", alpha=a, lay=lay, g=g, s=st, x=x.tolist(), which="zero feature weights vs WeightedGroupL2"),
                                              u2.tolist(), v2.tolist(), where=dict(pair=pair))
                for w in itertools.product((-2.0, 0.0, 0.5), repeat=6):
                    w = np.array(w)
                    if not close(SG1.value(w), WL.value(w)) or not close(SG2.value(w), WG.value(w)):
                        ctx.violation(site, "value_differs", dict(op="sparse_group_value", alpha=a, lay=lay, w=w.tolist()), [SG1.value(w), SG2.value(w)], [WL.value(w), WG.value(w)],
                                      where=dict(pair=pair))
        ctx.count("pairs_compared")
    elif pair == "slope_constant":
        for a in (0.5, 1.5):
            for p in (1, 2, 3, 4):
                Sl, L = build.penalty(dict(name="SLOPE", alphas=[a] * p)), build.penalty(dict(name="L1", alpha=a, positive=False))
                for x in itertools.product((-2.0, -0.5, 0.0, 0.5, 2.0), repeat=p):
                    x = np.array(x)
                    for st in (0.5, 1.0, 2.0):
                        u = Sl.prox_vec(x.copy(), float(st))
                        v = np.array([L.prox_1d(float(t), float(st), 0) for t in x])
                        ctx.obs(u, nontrivial=bool(np.any(u)))
                        if not close(u, v):
                            ctx.violation(site, "prox_differs", dict(op="slope", alpha=a, x=x.tolist(), s=st), u, v, where=dict(pair=pair))
                    if not close(Sl.value(x), L.value(x)):
                        ctx.violation(site, "value_differs", dict(op="slope_value", alpha=a, x=x.tolist()), Sl.value(x), L.value(x), where=dict(pair=pair))
        ctx.count("pairs_compared")
    else:
        run_datafit_pair(pair, ctx)


def run_datafit_pair(pair, ctx):
    import scipy.sparse as sp
    from mc import build
    from mc.drivers import c06
    site = f"reduction:{pair}"
    designs = [d for d in c06.designs("quick") if d[1].shape[0] >= 2][:60] + list(A.G.items())

    def accessors(d, ds_, X, Xs, y, w, names):
        out = {}
        u = X @ w
        for nme in names:
            try:
                if nme == "value":
                    out[nme] = d.value(y, w, u)
                elif nme == "gradient_scalar":
                    out[nme] = [d.gradient_scalar(X, y, w, u, j) for j in range(X.shape[1])]
                elif nme == "gradient":
                    out[nme] = d.gradient(X, y, u)
                elif nme == "raw_grad":
                    out[nme] = d.raw_grad(y, u)
                elif nme == "raw_hessian":
                    out[nme] = d.raw_hessian(y, u)
                elif nme == "get_lipschitz":
                    out[nme] = d.get_lipschitz(X, y)
                elif nme == "get_global_lipschitz":
                    out[nme] = d.get_global_lipschitz(X, y)
                elif nme == "intercept_update_step":
                    out[nme] = d.intercept_update_step(y, u)
                elif nme == "full_grad_sparse":
                    out[nme] = ds_.full_grad_sparse(Xs.data, Xs.indptr, Xs.indices, y, u)
                elif nme == "get_lipschitz_sparse":
                    out[nme] = ds_.get_lipschitz_sparse(Xs.data, Xs.indptr, Xs.indices, y)
            except Exception as e:
                out[nme] = "EXC " + type(e).__name__
        return out

    def compare(gen_spec, spe_spec, Xg, yg, Xsp, ysp, names, tag, tol=RT, wmap=None):
        Xg, Xsp = np.asfortranarray(Xg), np.asfortranarray(Xsp)
        dg, dgs, _ = c06.make(gen_spec, Xg, sp.csc_matrix(Xg), yg)
        dsn, dss, _ = c06.make(spe_spec, Xsp, sp.csc_matrix(Xsp), ysp)
        for w in c06.w_vals(Xg.shape[1], "quick"):
            if np.max(np.abs(Xg @ w)) > 30:
                continue
            a = accessors(dg, dgs, Xg, sp.csc_matrix(Xg), yg, w, names)
            b = accessors(dsn, dss, Xsp, sp.csc_matrix(Xsp), ysp, w, names)
            ctx.obs([np.asarray(v, dtype=float) if not isinstance(v, str) else v for v in a.values()], nontrivial=bool(np.any(w)))
            for nme in names:
                va, vb = a[nme], b[nme]
                if isinstance(va, str) or isinstance(vb, str):
                    if va != vb:
                        ctx.violation(site, "accessor_outcome_differs", dict(op="datafit", pair=pair, tag=tag, gen=gen_spec, spe=spe_spec, X=Xg.tolist(), y=np.asarray(yg).tolist(), w=w.tolist(), accessor=nme),
                                      str(va), str(vb), where=dict(pair=pair, accessor=nme))
                    continue
                if wmap is not None and nme in wmap:
                    vb = wmap[nme](vb)
                if not close(va, vb, tol):
                    ctx.violation(site, "accessor_differs", dict(op="datafit", pair=pair, tag=tag, gen=gen_spec, spe=spe_spec, X=Xg.tolist(), y=np.asarray(yg).tolist(), w=w.tolist(), accessor=nme, tol=tol),
                                  np.asarray(va).tolist(), np.asarray(vb).tolist(), where=dict(pair=pair, accessor=nme))
        ctx.count("pairs_compared")

    full = ["value", "gradient_scalar", "gradient", "raw_grad", "raw_hessian", "get_lipschitz", "get_global_lipschitz", "intercept_update_step",
            "full_grad_sparse", "get_lipschitz_sparse"]
    for xid, X in designs:
        n, p = X.shape
        y = A.reg_targets(X)["generic"]
        if pair == "wquad_unit":
            compare(dict(name="WeightedQuadratic", sample_weights=[1.0] * n), dict(name="Quadratic"), X, y, X, y, full, xid)
        elif pair == "huber_delta_inf":
            compare(dict(name="Huber", delta=2.0 ** 20), dict(name="Quadratic"), X, y, X, y,
                    ["value", "gradient_scalar", "get_lipschitz", "get_global_lipschitz", "intercept_update_step", "full_grad_sparse", "get_lipschitz_sparse"], xid)
        elif pair == "wquad_integer_replication":
            sw = np.array([1, 2, 1, 3, 2, 1, 4, 1][:n])
            rep = np.repeat(np.arange(n), sw)
            compare(dict(name="WeightedQuadratic", sample_weights=sw.astype(float).tolist()), dict(name="Quadratic"), X, y, X[rep], y[rep],
                    ["value", "gradient_scalar", "gradient", "get_lipschitz", "get_global_lipschitz", "intercept_update_step", "full_grad_sparse", "get_lipschitz_sparse"], xid)
        elif pair == "group_datafits":
            for lay in list(A.GROUP_LAYOUTS.get(p, {}).values())[:2]:
                compare(dict(name="QuadraticGroup", grp_ptr=lay[0], grp_indices=lay[1]), dict(name="Quadratic"), X, y, X, y, ["value", "gradient_scalar", "intercept_update_step"], xid)
                yl = R.LABELS[0][:n]
                if len(set(yl)) == 2:
                    compare(dict(name="LogisticGroup", grp_ptr=lay[0], grp_indices=lay[1]), dict(name="Logistic"), X, yl, X, yl,
                            ["value", "gradient_scalar", "raw_grad", "raw_hessian", "intercept_update_step", "get_global_lipschitz"], xid)
        elif pair == "multitask_onetask":
            from mc import build
            d1 = build.datafit(dict(name="QuadraticMultiTask"))
            d0 = build.datafit(dict(name="Quadratic"))
            Xf = np.asfortranarray(X)
            Y = np.asfortranarray(y[:, None])
            d1.initialize(Xf, Y)
            d0.initialize(Xf, y)
            for w in c06.w_vals(p, "quick"):
                W = w[:, None]
                pairs_ = [("value", d1.value(Y, W, Xf @ W), d0.value(y, w, Xf @ w)),
                          ("gradient_j", np.array([d1.gradient_j(Xf, Y, W, Xf @ W, j)[0] for j in range(p)]), np.array([d0.gradient_scalar(Xf, y, w, Xf @ w, j) for j in range(p)])),
                          ("get_lipschitz", d1.get_lipschitz(Xf, Y), d0.get_lipschitz(Xf, y)),
                          ("intercept_update_step", d1.intercept_update_step(Y, Xf @ W)[0], d0.intercept_update_step(y, Xf @ w))]
                ctx.obs([np.asarray(v[1], dtype=float) for v in pairs_], nontrivial=bool(np.any(w)))
                for nme, va, vb in pairs_:
                    if not close(va, vb):
                        ctx.violation(site, "accessor_differs", dict(op="multitask_onetask", X=X.tolist(), y=y.tolist(), w=w.tolist(), accessor=nme), np.asarray(va).tolist(), np.asarray(vb).tolist(),
                                      where=dict(pair=pair, accessor=nme))
            ctx.count("pairs_compared")
    if pair == "cox_no_ties":
        from mc import build
        X = np.asfortranarray(A.G_SQ)
        for perm in itertools.permutations((1.0, 2.0, 3.0, 4.0)):
            for s in itertools.product((0.0, 1.0), repeat=4):
                y = np.asfortranarray(np.column_stack([perm, s]))
                de, db = build.datafit(dict(name="Cox", use_efron=True)), build.datafit(dict(name="Cox", use_efron=False))
                de.initialize(X, y)
                db.initialize(X, y)
                for w in c06.w_vals(4, "quick"):
                    u = X @ w
                    if np.max(np.abs(u)) > 30:
                        continue
                    for nme, fa, fb in (("value", de.value(y, w, u), db.value(y, w, u)), ("raw_grad", de.raw_grad(y, u), db.raw_grad(y, u)),
                                        ("raw_hessian", de.raw_hessian(y, u), db.raw_hessian(y, u))):
                        ctx.obs(np.asarray(fa, dtype=float), nontrivial=bool(np.any(s)))
                        if not close(fa, fb):
                            ctx.violation(site, "accessor_differs", dict(op="cox", y=y.tolist(), w=w.tolist(), accessor=nme), np.asarray(fa).tolist(), np.asarray(fb).tolist(),
                                          where=dict(pair=pair, accessor=nme))
        ctx.count("pairs_compared")


# ------------------------------------------------------------------------------------------ solution level

def sol_designs(tier):
    out = [("tall6x3", A.G_TALL), ("sq4x4", A.G_SQ), ("wide3x5", A.G_WIDE), ("dup", A.K()["dup"])]
    if tier != "quick":
        # every {-1,0,1} design with 4 samples x 2 features (one per row-permutation / sign orbit)
        out += [("T42o%d" % k, X) for k, X in enumerate(A.T_orbits(4, 2)) if np.any(X)]
    return out


def sol_cases(tier):
    out = []
    cd = dict(tol=1e-10, max_iter=100, max_epochs=5000)
    for xid, X in sol_designs(tier):
        p = X.shape[1]
        for a in ((0.3, 0.03) if tier == "quick" else (1.0, 0.3, 0.03)):
            for fi in (True, False):
                base = dict(name="Lasso", kw=dict(alpha=a, fit_intercept=fi, **cd))
                out.append(("wlasso_unit", dict(name="WeightedLasso", kw=dict(alpha=a, fit_intercept=fi, weights=[1.0] * p, **cd)), base, xid, "reg", 1e-10))
                out.append(("enet_ratio1", dict(name="ElasticNet", kw=dict(alpha=a, fit_intercept=fi, l1_ratio=1.0, **cd)), base, xid, "reg", 1e-10))
                out.append(("grouplasso_singletons", dict(name="GroupLasso", kw=dict(alpha=a, fit_intercept=fi, groups=1, tol=1e-10, max_iter=500)), base, xid, "reg", 1e-10))
                if not fi or True:
                    # the same reductions under the positivity option (the special case is the positive Lasso)
                    pbase = dict(name="Lasso", kw=dict(alpha=a, fit_intercept=fi, positive=True, **cd))
                    out.append(("wlasso_unit+", dict(name="WeightedLasso", kw=dict(alpha=a, fit_intercept=fi, weights=[1.0] * p, positive=True, **cd)), pbase, xid, "reg+", 1e-10))
                    out.append(("enet_ratio1+", dict(name="ElasticNet", kw=dict(alpha=a, fit_intercept=fi, l1_ratio=1.0, positive=True, **cd)), pbase, xid, "reg+", 1e-10))
                    out.append(("grouplasso_singletons+", dict(name="GroupLasso", kw=dict(alpha=a, fit_intercept=fi, groups=1, positive=True, tol=1e-10, max_iter=500)), pbase, xid, "reg+", 1e-10))
                    out.append(("estimator_vs_GLE+", dict(name="GLE", kw=dict(datafit=dict(name="Quadratic"), penalty=dict(name="L1", alpha=a, positive=True),
                                                          solver=dict(name="AndersonCD", kw=dict(fit_intercept=fi, **cd)))), pbase, xid, "reg+", 0.0))
                out.append(("mcp_gamma_inf", dict(name="MCPRegression", kw=dict(alpha=a, fit_intercept=fi, gamma=2.0 ** 20, **cd)), base, xid, "reg", 1e-4))
                out.append(("multitask_onetask", dict(name="MultiTaskLasso", kw=dict(alpha=a, fit_intercept=fi, **cd)), base, xid, "reg1", 1e-10))
                out.append(("estimator_vs_GLE", dict(name="GLE", kw=dict(datafit=dict(name="Quadratic"), penalty=dict(name="L1", alpha=a, positive=False),
                                                     solver=dict(name="AndersonCD", kw=dict(fit_intercept=fi, **cd)))), base, xid, "reg", 0.0))
                out.append(("estimator_vs_GLE_logreg", dict(name="GLE", kw=dict(datafit=dict(name="Logistic"), penalty=dict(name="L1", alpha=a * 0.3, positive=False),
                                                            solver=dict(name="ProxNewton", kw=dict(fit_intercept=fi, tol=1e-10, max_iter=100, max_pn_iter=1000)))),
                            dict(name="SparseLogisticRegression", kw=dict(alpha=a * 0.3, fit_intercept=fi, tol=1e-10, max_iter=100, max_epochs=1000)), xid, "clf", 0.0))
    return out


def fit_any(spec, X, y):
    import warnings
    import skglm
    from mc import build, estim
    with warnings.catch_warnings():
        warnings.simplefilter("ignore")
        if spec["name"] == "GLE":
            kw = spec["kw"]
            est = skglm.GeneralizedLinearEstimator(datafit=build.datafit_raw(kw["datafit"]), penalty=build.penalty_raw(kw["penalty"]), solver=build.solver(kw["solver"]))
        else:
            est = estim.make(spec)
        est.fit(X, y)
    coef = np.asarray(est.coef_, dtype=float)
    icpt = np.asarray(est.intercept_, dtype=float)
    return coef, icpt, est


def exec_solution(case):
    name, gen, spe, xid, tk, tol = case["name"], case["gen"], case["spe"], case["xid"], case["tk"], case["tol"]
    X = np.array(case["X"], dtype=float)
    y = np.array(case["y"], dtype=float)
    out = []
    try:
        cg, ig, eg = fit_any(gen, X, y if tk != "reg1" else y[:, None])
        cs, is_, es = fit_any(spe, X, y)
    except Exception as e:
        return [("exception", type(e).__name__ + ": " + str(e)[:100], "both fit")], None
    cg, cs = cg.ravel(), cs.ravel()
    ig, is_ = float(np.ravel(ig)[0]), float(np.ravel(is_)[0])
    if tol == 0.0:
        if not (np.array_equal(cg, cs) and ig == is_):
            out.append(("estimator_differs_from_equivalent_GLE", dict(coef=cg.tolist(), intercept=ig), dict(coef=cs.tolist(), intercept=is_)))
        return out, cg
    fi = bool(spe["kw"].get("fit_intercept", True))
    prob = dict(datafit=dict(name="Quadratic"), penalty=dict(name="L1", alpha=spe["kw"]["alpha"], positive=bool(spe["kw"].get("positive", False))), X=X, y=y,
                fit_intercept=fi)
    wg = np.append(cg, ig) if fi else cg
    ws = np.append(cs, is_) if fi else cs
    if tol <= 1e-9:
        from mc import estim
        for a, b, tag in ((wg, ws, "general vs special"), (ws, wg, "special vs general")):
            ok, gap, bnd = estim.gap_ok(prob, a, b)
            nu = RC.violation(prob, a)[0]
            if not ok and nu <= 1e-8:
                out.append(("objective_differs", dict(direction=tag, gap=gap), f"<= {bnd}"))
            if nu > 1e-7:
                out.append(("not_optimal_for_special_case_objective", dict(direction=tag.split(" ")[0], violation=nu), "<= 1e-7"))
    else:
        Fg, Fs = RC.objective(prob, wg), RC.objective(prob, ws)
        if abs(Fg - Fs) > tol * (1 + abs(Fs)):
            out.append(("objective_differs", Fg - Fs, f"<= {tol} relative"))
    return out, cg


def run(task, ctx):
    if task["op"] == "pair":
        run_pair(task["pair"], ctx)
        ctx.sample(dict(op="pair", pair=task["pair"]))
        return
    cases = sol_cases(ctx.tier)
    designs = dict(sol_designs(ctx.tier))
    nparts = 4 if ctx.tier == "quick" else NPARTS
    for i, (name, gen, spe, xid, tk, tol) in enumerate(cases):
        if i % nparts != task["part"]:
            continue
        X = designs[xid]
        ts = R.targets("clf" if tk == "clf" else "reg", X, ctx.tier)
        if tk == "reg+":
            ts = [(t, -v) for t, v in ts] + ts[-1:]          # targets for which the sign constraint is active
        for tname, y in (ts[-1:] if ctx.tier == "quick" and tk != "reg+" else ts[:2] if ctx.tier == "quick" else ts):
            case = dict(op="solution", name=name, gen=gen, spe=spe, xid=xid, tk=tk, tol=tol, X=X.tolist(), y=y.tolist())
            v, c = exec_solution(case)
            ctx.count("solution_pairs")
            ctx.obs(c, nontrivial=c is not None and bool(np.any(c)))
            for kind, got, exp in v:
                ctx.violation(f"reduction:{name}", kind, case, got, exp, where=dict(pair=name))
    ctx.sample(dict(op="solutions", part=task["part"]))


def replay(params):
    from mc.core import Ctx, fhex
    if params["op"] == "solution":
        v, c = exec_solution(params)
        return dict(violated=bool(v), kinds=[x[0] for x in v], detail=fhex([[x[0], x[1], x[2]] for x in v[:5]]))
    # component-level: re-run the whole (cheap) pair and report whether the same site/kind reappears
    ctx = Ctx(PROPERTY, "c14", "quick")
    pair = params.get("name") or params.get("pair")
    if pair is None:
        pair = {"singleton": "group_singletons", "singleton_score": "group_singletons", "singleton_value": "group_singletons", "row": "row_onetask",
                "row_value": "row_onetask", "row_score": "row_onetask", "slope": "slope_constant", "slope_value": "slope_constant",
                "sparse_group": "sparse_group_reductions", "sparse_group_value": "sparse_group_reductions",
                "multitask_onetask": "multitask_onetask", "cox": "cox_no_ties"}[params["op"]]
    run_pair(pair, ctx)
    kinds = sorted({v["kind"] for v in ctx.viol.values()})
    return dict(violated=bool(kinds), kinds=kinds, pair=pair, counts={v["kind"]: v["count"] for v in ctx.viol.values()})


def describe(tier, agg):
    rule = ("14 component-level reductions (sparse-group penalty with zero group / feature weights vs weighted L1 / group L2 on 4 layouts, unit weights vs unweighted L1 / MCP, l1_ratio = 1 vs L1, singleton groups vs weighted L1, one-task "
            "row penalties vs their scalar counterpart, constant SLOPE vs L1, gamma = 2^20 MCP vs L1, delta = 2^20 Huber vs quadratic, unit "
            "sample weights vs quadratic, integer sample weights vs replicated rows, Efron vs Breslow on all tie-free survival patterns of 4 "
            "samples, group datafits vs plain ones, one-task multitask datafit vs quadratic), each on the prox / score / value / accessor "
            "grids of C06-C08; 7 solution-level reductions x 4 designs x 2 alphas x intercept (estimator vs special case through the "
            "gap theorem; estimator vs the equivalent GeneralizedLinearEstimator bit-wise); distinct = distinct non-trivial outputs")
    return rule, {"pairs_compared": 60, "solution_pairs": 100}
