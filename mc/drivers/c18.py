"""C18 — fitting is pure: inputs untouched, no state leaks between fits (engine H: BFS over fit histories)."""
import itertools
import json

import numpy as np
import scipy.sparse as sp

from mc import alphabet as A
from mc import registry as R

PROPERTY = "C18"
LEVEL = "model_checking"
ASSUMPTIONS = [
    "a state is the history of operations on a group of persistent estimators; it is rebuilt by replaying the history on fresh "
    "estimator objects inside the worker; canonical form = every estimator's get_params() and fitted attributes by value",
    "differential oracle: the attributes produced by fit(E with given params, D) must be the same after every history, and equal to "
    "the ones obtained by a fresh object in a *fresh worker process* that performs this single fit (reference tasks); equality is "
    "bit-wise for the same container type",
    "input purity: bytes of X (data/indices/indptr for sparse), y, weights, groups are compared before/after every operation",
]

DATA = {
    "D63": dict(X=A.G_TALL, kind="ndarray"), "D35": dict(X=A.G_WIDE, kind="ndarray"), "D63csc": dict(X=A.G_TALL, kind="csc"),
    "D63f32": dict(X=A.G_TALL, kind="float32"), "D44F": dict(X=A.G_SQ, kind="fortran"),
}


def target(dkey, tkind):
    X = DATA[dkey]["X"]
    return R.targets(tkind, X, "quick")[-1][1]


GROUPS = {
    "lasso-family": dict(tkind="reg", data=["D63", "D35", "D63csc", "D63f32"],
                         est=[dict(name="Lasso", kw=dict(alpha=0.1, tol=1e-6, max_iter=20, max_epochs=500)),
                              dict(name="ElasticNet", kw=dict(alpha=0.1, l1_ratio=0.5, tol=1e-6, max_iter=20, max_epochs=500)),
                              dict(name="WeightedLasso", kw=dict(alpha=0.1, tol=1e-6, max_iter=20, max_epochs=500, weights="W"))],
                         moves=[dict(alpha=0.02), dict(fit_intercept=False)], paths=True),
    "mcp-gle": dict(tkind="reg", data=["D63", "D35", "D44F"],
                    est=[dict(name="Lasso", kw=dict(alpha=0.05, tol=1e-6, max_iter=20, max_epochs=500)), dict(name="MCPRegression", kw=dict(alpha=0.05, gamma=3.0, tol=1e-6, max_iter=20, max_epochs=500)),
                         dict(name="GLE", kw=dict(datafit="Quadratic", penalty=dict(name="L1", alpha=0.05), solver=dict(name="AndersonCD", kw=dict(tol=1e-6, max_iter=20, max_epochs=500))))],
                    moves=[dict(alpha=0.2)], paths=True),
    "classifiers": dict(tkind="clf", data=["D63", "D44F", "D63csc"],
                        est=[dict(name="SparseLogisticRegression", kw=dict(alpha=0.05, tol=1e-6, max_epochs=50)), dict(name="LinearSVC", kw=dict(C=1.0, tol=1e-6, max_iter=20, max_epochs=500)),
                             dict(name="GLE", kw=dict(datafit="Logistic", penalty=dict(name="L1", alpha=0.05), solver=dict(name="AndersonCD", kw=dict(tol=1e-6, max_iter=20, max_epochs=500))))],
                        moves=[dict(alpha=0.2), dict(C=0.1)], paths=False),
    "group": dict(tkind="reg", data=["D63", "D44F", "D63csc"],
                  est=[dict(name="GroupLasso", kw=dict(groups=1, alpha=0.05, tol=1e-6, max_iter=50, max_epochs=100)),
                       dict(name="GroupLasso", kw=dict(groups="G", alpha=0.05, tol=1e-6, max_iter=50, max_epochs=100, weights="GW"))],
                  moves=[dict(alpha=0.2)], paths=False),
    "multitask": dict(tkind="mixed", data=["D63", "D35"],
                      est=[dict(name="MultiTaskLasso", kw=dict(alpha=0.05, tol=1e-6, max_iter=20, max_epochs=500)), dict(name="Lasso", kw=dict(alpha=0.05, tol=1e-6, max_iter=20, max_epochs=500))],
                      moves=[dict(alpha=0.2)], paths=True),
    "reweighted": dict(tkind="reg", data=["D63", "D35"],
                       est=[dict(name="IRL1", kw=dict()), dict(name="IRL1", kw=dict(n_reweights=2))], moves=[], paths=False),
    "sqrt-cox": dict(tkind="mixed2", data=["D63", "D44F"],
                     est=[dict(name="SqrtLasso", kw=dict(alpha=0.2, tol=1e-8)), dict(name="CoxEstimator", kw=dict(alpha=0.05, l1_ratio=0.7, tol=1e-8))],
                     moves=[dict(alpha=0.05), dict(tol=1e-12), dict(max_iter=1)], paths=False),
}


def make_est(spec, p):
    import skglm
    from skglm.experimental.reweighted import IterativeReweightedL1
    from skglm.experimental.sqrt_lasso import SqrtLasso
    from mc import build
    name, kw = spec["name"], dict(spec["kw"])
    if isinstance(kw.get("weights"), str) and kw["weights"] == "W":
        kw["weights"] = np.array([1.0, 2.0, 0.5, 0.0, 1.5][:p])
    if isinstance(kw.get("weights"), str) and kw["weights"] == "GW":
        kw["weights"] = np.array([1.0, 2.0, 0.5][: (2 if p in (3, 4) else 3)])
    if isinstance(kw.get("groups"), str) and kw["groups"] == "G":
        kw["groups"] = {3: [[0, 2], [1]], 4: [[0, 3], [2, 1]], 5: [[4, 0], [1, 3], [2]]}[p]
    if name == "GLE":
        return skglm.GeneralizedLinearEstimator(datafit=build.datafit_raw(dict(name=kw["datafit"])), penalty=build.penalty_raw(kw["penalty"]),
                                                solver=build.solver(kw["solver"]))
    if name == "IRL1":
        return IterativeReweightedL1(**kw)
    if name == "SqrtLasso":
        return SqrtLasso(**kw)
    return getattr(skglm, name)(**kw)


def data_of(dkey, tkind, est_name):
    from mc import estim
    X = DATA[dkey]["X"]
    Xc = estim.container(X, DATA[dkey]["kind"])
    if tkind == "mixed":
        y = R.targets("multi" if est_name == "MultiTaskLasso" else "reg", X, "quick")[-1][1]
    elif tkind == "mixed2":
        y = R.SURV[0][:X.shape[0]].copy() if est_name == "CoxEstimator" else R.targets("reg", X, "quick")[-1][1]
    else:
        y = target(dkey, tkind)
    if DATA[dkey]["kind"] in ("float32",):
        y = y.astype(np.float32)
    return Xc, np.array(y)


def snapshot_inputs(Xc, y, est):
    out = []
    if sp.issparse(Xc):
        out += [Xc.data.tobytes(), Xc.indices.tobytes(), Xc.indptr.tobytes()]
    else:
        out += [np.asarray(Xc).tobytes()]
    out.append(np.asarray(y).tobytes())
    for attr in ("weights", "groups"):
        v = getattr(est, attr, None)
        if v is not None:
            out.append(json.dumps(np.asarray(v, dtype=object).tolist(), default=str) if attr == "groups" else np.asarray(v).tobytes())
    return out


def fitted_attrs(est):
    out = {}
    for a in ("coef_", "intercept_", "dual_coef_", "classes_", "n_iter_", "stop_crit_", "stopping_crit", "n_features_in_", "loss_history_"):
        if hasattr(est, a):
            v = getattr(est, a)
            if v is None:
                out[a] = None
            else:
                arr = np.asarray(v)
                out[a] = [str(arr.dtype), list(arr.shape), arr.astype(float).tolist() if arr.dtype.kind in "fiub" else arr.tolist()]
    return out


def ops_of(gname):
    G = GROUPS[gname]
    ops = []
    for i in range(len(G["est"])):
        for d in G["data"]:
            ops.append(("fit", i, d))
    for i in range(len(G["est"])):
        for mi, mv in enumerate(G["moves"]):
            if all(k in params_of(G["est"][i]) for k in mv):
                ops.append(("set", i, mi))
    if G["paths"]:
        for i, e in enumerate(G["est"]):
            if e["name"] in ("Lasso", "ElasticNet", "WeightedLasso", "MCPRegression", "MultiTaskLasso"):
                ops.append(("path", i, G["data"][0]))
    return ops


def params_of(spec):
    if spec["name"] == "GLE":
        return {}
    if spec["name"] == "SqrtLasso":
        return dict(alpha=1, tol=1, max_iter=1)
    if spec["name"] == "CoxEstimator":
        return dict(alpha=1, tol=1, max_iter=1, l1_ratio=1)
    if spec["name"] == "LinearSVC":
        return dict(C=1, tol=1, fit_intercept=1)
    return dict(alpha=1, tol=1, fit_intercept=1, l1_ratio=1 if spec["name"] == "ElasticNet" else 0)


def play(gname, history):
    """Replay a history on fresh estimators.  Returns (per-op outcomes, canonical state)."""
    import warnings
    G = GROUPS[gname]
    ests = {}          # (index, p) -> estimator: an estimator object per spec; p-dependent args fixed at first use
    cur_kw = [dict() for _ in G["est"]]
    outcomes = []
    for op in history:
        kind, i, arg = op
        spec = G["est"][i]
        if kind == "set":
            mv = G["moves"][arg]
            cur_kw[i].update(mv)
            for key, est in ests.items():
                if key[0] == i:
                    est.set_params(**mv)
            outcomes.append(dict(op=op, status="ok", kind="set"))
            continue
        Xc, y = data_of(arg, G["tkind"], spec["name"])
        p = Xc.shape[1] if not isinstance(Xc, list) else len(Xc[0])
        key = (i, p if ("weights" in spec["kw"] or "groups" in spec["kw"]) else 0)
        if key not in ests:
            ests[key] = make_est(spec, p)
            if cur_kw[i]:
                ests[key].set_params(**cur_kw[i])
        est = ests[key]
        before = snapshot_inputs(Xc, y, est)
        rec = dict(op=op, kind=kind, est=spec["name"], params=json.dumps(cur_kw[i], sort_keys=True), data=arg)
        from mc import build
        from mc.core import derive_seed
        build.seed_numba(derive_seed("c18", gname, kind, spec["name"], arg))     # F2: the harness owns the power-method RNG
        try:
            with warnings.catch_warnings():
                warnings.simplefilter("ignore")
                if kind == "fit":
                    est.fit(Xc, y)
                    rec.update(status="ok", attrs=fitted_attrs(est))
                else:
                    grid = np.array([0.2, 0.05])
                    res = est.path(Xc if not isinstance(Xc, list) else np.array(Xc), y, grid)
                    rec.update(status="ok", attrs=dict(coefs=np.asarray(res[1], dtype=float).tolist()))
        except Exception as e:
            rec.update(status="exc", exc=type(e).__name__ + ": " + str(e)[:100])
        rec["inputs_untouched"] = before == snapshot_inputs(Xc, y, est)
        outcomes.append(rec)
    canon = json.dumps([cur_kw, [[str(k), json.dumps(e.get_params(deep=False), sort_keys=True, default=str), fitted_attrs(e)]
                                 for k, e in sorted(ests.items())]], sort_keys=True, default=str)
    return outcomes, canon


def result_key(gname, rec):
    return f"{gname}|{rec['kind']}|{rec['op'][1]}|{rec['est']}|{rec['params']}|{rec['data']}"


def plan(tier, seed):
    tasks = [dict(op="bfs", group=g, weight=5) for g in GROUPS]
    tasks += [dict(op="solver_bfs", solver=s_, weight=4) for s_ in SOLVER_REUSE]
    # references: one fresh worker process per single fit
    k = 0
    for g in GROUPS:
        for op in ops_of(g):
            if op[0] in ("fit", "path"):
                tasks.append(dict(op="ref", group=g, hist=[list(op)], env={"VERIF_FRESH": str(k)}, weight=1))
                k += 1
                for mi in range(len(GROUPS[g]["moves"])):
                    if ("set", op[1], mi) in ops_of(g) and tier != "quick":
                        tasks.append(dict(op="ref", group=g, hist=[["set", op[1], mi], list(op)], env={"VERIF_FRESH": str(k)}, weight=1))
                        k += 1
    return tasks


# ---- persistent *solver* objects and persistent user arrays (same X object across calls, possibly modified in place) ----

SOLVER_REUSE = {
    "AndersonCD": dict(kw=dict(tol=1e-8, max_epochs=500, fit_intercept=False), datafits=["Quadratic", "Logistic", "Huber"], pen="L1", paths=True),
    "ProxNewton": dict(kw=dict(tol=1e-8, max_pn_iter=50, fit_intercept=False), datafits=["Logistic", "Quadratic", "WeightedQuadratic"], pen="L1"),
    "MultiTaskBCD": dict(kw=dict(tol=1e-8, max_epochs=500, p0=2, fit_intercept=False), datafits=["QuadraticMultiTask"], pen="L2_1", paths=True),
    "FISTA": dict(kw=dict(tol=1e-8, max_iter=200), datafits=["Quadratic", "Logistic"], pen="L1"),
    "GroupBCD": dict(kw=dict(tol=1e-8, max_iter=100, fit_intercept=False), datafits=["QuadraticGroup", "LogisticGroup"], pen="WeightedGroupL2"),
    "GramCD": dict(kw=dict(tol=1e-8), datafits=[None], pen="L1"),
    # a user-supplied dual starting point (hyper-parameter array of the solver) and two designs with the same number of samples
    "PDCD_WS": dict(kw=dict(tol=1e-8, max_iter=30, max_epochs=200), datafits=["SqrtQuadratic", "Pinball"], pen="L1", dual_init=True,
                    data={"A": "tall", "B": "dup"}),
}


def solver_play(sname, history):
    """ops: ('solve', datafit name, data key) | ('scale', data key): X[key] *= 2 in place (the user owns X)."""
    import warnings
    from mc import build
    from mc.core import derive_seed
    cfg = SOLVER_REUSE[sname]
    kw = dict(cfg["kw"])
    user_dual = None
    if cfg.get("dual_init"):
        user_dual = np.array([0.1, -0.2, 0.05, 0.3, -0.1, 0.2])
        kw["dual_init"] = user_dual
    solver = build.solver(dict(name=sname, kw=kw))
    base = {"A": A.G_TALL, "B": A.G_SQ}
    if cfg.get("data"):
        base = {"A": A.G_TALL, "B": A.K()["dup"]}
    data = {k: np.asfortranarray(v.copy()) for k, v in base.items()}
    scales = {"A": 0, "B": 0}
    out = []
    for op in history:
        if op[0] == "scale":
            data[op[1]] *= 2.0
            scales[op[1]] += 1
            out.append(dict(op=op, kind="scale"))
            continue
        kind_op, dn, key = op
        X = data[key]
        kind = R.KIND[dn]
        y = R.targets(kind, base[key], "quick")[0][1]
        lay = ([0, 2, 3], [0, 1, 2]) if base[key].shape[1] == 3 else ([0, 2, 4], [0, 2, 1, 3])
        dspec = None if dn is None else (dict(name=dn, grp_ptr=lay[0], grp_indices=lay[1]) if "Group" in dn else
                                         (dict(name=dn, delta=1.0) if dn == "Huber" else
                                          (dict(name=dn, quantile_level=0.3) if dn == "Pinball" else dict(name=dn))))
        user_sw = None
        if dn == "WeightedQuadratic":
            user_sw = [1.0, 2.0, 1.0, 3.0, 2.0, 1.0, 4.0, 1.0][:X.shape[0]]
            dspec["sample_weights"] = user_sw
        if dn == "QuadraticMultiTask":
            y = R.targets("multi", base[key], "quick")[0][1]
        pspec = dict(name="L1", alpha=0.05, positive=False) if cfg["pen"] == "L1" else (dict(name="L2_1", alpha=0.05) if cfg["pen"] == "L2_1" else
            dict(name="WeightedGroupL2", alpha=0.05, weights=[1.0, 2.0], grp_ptr=lay[0], grp_indices=lay[1], positive=False))
        before = X.tobytes() + (user_dual.tobytes() if user_dual is not None else b"")
        rec = dict(op=op, kind="solve", key=f"{sname}|{kind_op}|{dn}|{key}|x{scales[key]}")
        attrs_before = json.dumps({k: (v.tolist() if hasattr(v, "tolist") else v) for k, v in vars(solver).items()}, sort_keys=True, default=str)
        d = None
        try:
            with warnings.catch_warnings():
                warnings.simplefilter("ignore")
                d = build.datafit(dspec)
                ycur = np.asfortranarray(y) if np.ndim(y) == 2 else y
                if d is not None and hasattr(d, "initialize"):
                    d.initialize(X, ycur)
                build.seed_numba(derive_seed("c18s", sname, dn, key))
                if kind_op == "path":
                    res = solver.path(X, ycur, d, build.penalty(pspec), np.array([0.2, 0.05]))
                    rec.update(status="ok", w=np.asarray(res[1], dtype=float).tolist(), stop=[float(v) for v in np.ravel(res[2])], n=0)
                else:
                    w, hist, sc = solver.solve(X, ycur, d, build.penalty(pspec))
                    rec.update(status="ok", w=np.asarray(w, dtype=float).tolist(), stop=float(sc), n=len(hist))
        except Exception as e:
            rec.update(status="exc", exc=type(e).__name__ + ": " + str(e)[:100])
        rec["inputs_untouched"] = before == X.tobytes() + (user_dual.tobytes() if user_dual is not None else b"")
        # the solver's own hyper-parameters and the user's sample weights (shared with the compiled datafit) are inputs too
        attrs_after = json.dumps({k: (v.tolist() if hasattr(v, "tolist") else v) for k, v in vars(solver).items()}, sort_keys=True, default=str)
        if attrs_after != attrs_before:
            rec["inputs_untouched"] = False
            rec["changed"] = "solver attributes"
        if user_sw is not None and d is not None and not np.array_equal(np.asarray(d.sample_weights, dtype=float), np.asarray(user_sw)):
            rec["inputs_untouched"] = False
            rec["changed"] = "sample_weights"
        out.append(rec)
    return out


def run_solver_bfs(task, ctx):
    sname = task["solver"]
    cfg = SOLVER_REUSE[sname]
    ops = [("solve", dn, k) for dn in cfg["datafits"] for k in ("A", "B")] + [("scale", "A"), ("scale", "B")]
    if cfg.get("paths"):
        ops += [("path", cfg["datafits"][0], k) for k in ("A", "B")]
    depth = 3 if ctx.tier == "quick" else 4
    table = {}
    n = 0
    for d in range(1, depth + 1):
        for hist in itertools.product(ops, repeat=d):
            if hist[-1][0] not in ("solve", "path"):
                continue
            rec = solver_play(sname, hist)[-1]
            n += 1
            ctx.transitions += 1
            params = dict(op="solver_hist", solver=sname, history=[list(o) for o in hist])
            if not rec["inputs_untouched"]:
                ctx.violation(f"solver:{sname}.solve", "input_modified", params, rec.get("changed", "bytes of X changed"), "unchanged", where=dict(solver=sname))
            val = json.dumps({k: rec.get(k) for k in ("status", "w", "stop", "n")}, sort_keys=True)
            first = table.setdefault(rec["key"], (val, params))
            ctx.obs(rec.get("w"), rec.get("exc"), nontrivial=rec["status"] == "ok")
            ctx.count("solver_histories")
            if first[0] != val:
                ctx.violation(f"solver:{sname}.solve", "result_depends_on_history", dict(params, other=first[1]["history"]),
                              json.loads(val), json.loads(first[0]), where=dict(solver=sname))
    ctx.states += len(table)
    ctx.sample(dict(op="solver_bfs", solver=sname, ops=[list(o) for o in ops], depth=depth))


def run(task, ctx):
    if task["op"] == "solver_bfs":
        return run_solver_bfs(task, ctx)
    g = task["group"]
    if task["op"] == "ref":
        hist = [tuple(o) for o in task["hist"]]
        outcomes, _ = play(g, hist)
        rec = outcomes[-1]
        ctx.record("ref|" + result_key(g, rec), dict(status=rec["status"], attrs=rec.get("attrs"), exc=rec.get("exc")))
        ctx.count("reference_fits")
        ctx.obs(rec.get("attrs"), nontrivial=rec["status"] == "ok")
        return
    depth = 3 if ctx.tier == "quick" else 4
    ops = ops_of(g)
    seen = {}
    frontier = [()]
    table = {}
    executed = []               # distinct fit / path operations this worker process has already run (process-global state, e.g. compile caches)
    for d in range(depth):
        nxt = []
        for hist in frontier:
            for op in ops:
                h2 = hist + (op,)
                prelude = [list(o) for o in executed]
                outcomes, canon = play(g, h2)
                for o in h2:
                    if o[0] != "set" and o not in executed:
                        executed.append(o)
                ctx.transitions += 1
                rec = outcomes[-1]
                params = dict(op="hist", group=g, history=[list(o) for o in h2], prelude=prelude)
                if rec["kind"] != "set":
                    if not rec["inputs_untouched"]:
                        ctx.violation(f"estimator:{rec['est']}.{rec['kind']}", "input_modified", params, "bytes changed", "unchanged",
                                      where=dict(estimator=rec["est"], data=rec["data"]))
                    key = result_key(g, rec)
                    val = json.dumps(dict(status=rec["status"], attrs=rec.get("attrs")), sort_keys=True)
                    first = table.setdefault(key, (val, params))
                    if first[0] != val:
                        ctx.violation(f"estimator:{rec['est']}.{rec['kind']}", "result_depends_on_history",
                                      dict(params, other=first[1]["history"]), json.loads(val), json.loads(first[0]),
                                      where=dict(estimator=rec["est"], data=rec["data"], status=rec["status"]))
                    if rec["status"] == "exc":
                        ctx.count("op_exceptions")
                    ctx.obs(rec.get("attrs"), rec.get("exc"), nontrivial=rec["status"] == "ok")
                if canon not in seen:
                    seen[canon] = h2
                    nxt.append(h2)
        frontier = nxt
    ctx.states += len(seen)
    ctx.count("closure_reached" if not frontier else "depth_bound_reached")
    for key, (val, params) in table.items():
        ctx.record("bfs|" + key, dict(val=json.loads(val), params=params))
    ctx.sample(dict(group=g, ops=[list(o) for o in ops][:6], n_ops=len(ops), depth=depth, states=len(seen)))


def post(agg, ctx):
    rec = agg.get("records", {})
    for k, v in rec.items():
        if not k.startswith("bfs|"):
            continue
        ref = rec.get("ref|" + k[4:])
        if ref is None:
            continue
        ctx.count("compared_with_fresh_process")
        a = json.dumps(dict(status=v["val"]["status"], attrs=v["val"].get("attrs")), sort_keys=True)
        b = json.dumps(dict(status=ref["status"], attrs=ref.get("attrs")), sort_keys=True)
        if a != b:
            est = k.split("|")[4]
            ctx.violation(f"estimator:{est}.fit", "differs_from_fresh_process", v["params"], v["val"], ref,
                          where=dict(estimator=est, data=k.split("|")[-1], status=v["val"]["status"]))


def fresh_process_play(g, hist):
    """play(g, hist) in a new interpreter (same repository, same seed); returns the per-op outcomes."""
    import os
    import subprocess
    import sys
    root = os.path.dirname(os.path.dirname(os.path.dirname(os.path.abspath(__file__))))
    code = ("import sys, json, warnings; warnings.simplefilter('ignore'); sys.path.insert(0, %r); sys.path.insert(0, %r); "
            "from mc import worker; worker._install_shim(); from mc.drivers import c18; "
            "out, _ = c18.play(%r, [tuple(o) for o in json.loads(%r)]); print('@@' + json.dumps(out, default=str))"
            % (os.environ.get("VERIF_REPO", "/repo"), root, g, json.dumps([list(o) for o in hist])))
    r = subprocess.run([sys.executable, "-c", code], capture_output=True, text=True, timeout=900)
    line = [ln for ln in r.stdout.splitlines() if ln.startswith("@@")]
    if not line:
        raise RuntimeError("fresh process failed: " + r.stderr[-400:])
    return json.loads(line[-1][2:])


def replay(params):
    if params["op"] == "solver_hist":
        hist = [tuple(o) for o in params["history"]]
        rec = solver_play(params["solver"], hist)[-1]
        # same final solve on a fresh solver with the same data content
        fresh = solver_play(params["solver"], [h for h in hist[:-1] if h[0] == "scale"] + [hist[-1]])[-1]
        kinds = []
        if not rec["inputs_untouched"]:
            kinds.append("input_modified")
        if json.dumps({k: rec.get(k) for k in ("status", "w", "stop", "n")}, sort_keys=True) != \
                json.dumps({k: fresh.get(k) for k in ("status", "w", "stop", "n")}, sort_keys=True):
            kinds.append("result_depends_on_history")
        return dict(violated=bool(kinds), kinds=kinds, last={k: rec.get(k) for k in ("status", "w", "exc")},
                    fresh={k: fresh.get(k) for k in ("status", "w", "exc")})
    g = params["group"]
    hist = [tuple(o) for o in params["history"]]
    # the same final operation on fresh objects (empty history) in a process of its own: state that leaks through the process
    # (compile caches, module globals) shows as a difference, too
    ref = fresh_process_play(g, [h for h in hist if h[0] == "set" and h[1] == hist[-1][1]] + [hist[-1]])
    # what the exploring worker had already executed before this history (each on fresh estimator objects)
    for o in params.get("prelude", []):
        play(g, [tuple(o)])
    outcomes, _ = play(g, hist)
    rec = outcomes[-1]
    kinds = []
    if rec["kind"] != "set" and not rec["inputs_untouched"]:
        kinds.append("input_modified")
    a = json.dumps(dict(status=rec["status"], attrs=rec.get("attrs")), sort_keys=True)
    b = json.dumps(dict(status=ref[-1]["status"], attrs=ref[-1].get("attrs")), sort_keys=True)
    if a != b:
        kinds.append("result_depends_on_history")
    return dict(violated=bool(kinds), kinds=kinds, last=dict(status=rec["status"], exc=rec.get("exc")), fresh=dict(status=ref[-1]["status"], exc=ref[-1].get("exc")))


def describe(tier, agg):
    rule = ("engine H: 7 groups of 2-3 persistent estimators sharing compiled classes (lasso family, MCP/GLE, classifiers, group "
            "lasso x2, multitask+lasso, IterativeReweightedL1 x2, SqrtLasso+Cox) x 2-4 datasets of different shapes / containers / "
            "dtypes; operations fit(E,D), path(E,D,grid), set_params(E, .); BFS over all histories to depth 3 (4 thorough) with states "
            "deduplicated on (params, fitted attributes); after every operation: input bytes unchanged, result identical to the result "
            "of the same (E params, D) under every other history and to a single fit in a fresh worker process; distinct = distinct "
            "successful fit results")
    rule += ("; plus persistent *solver* objects (AndersonCD, ProxNewton, FISTA, GroupBCD, GramCD) reused across all sequences (depth 3/4) of "
             "solves with different datafits on two persistent X objects that the user may rescale in place between calls")
    return rule, {"reference_fits": 30, "compared_with_fresh_process": 30, "solver_histories": 300}
