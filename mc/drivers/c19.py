"""C19 — degenerate data is handled: null columns get zero, nothing blows up (engine P)."""
import numpy as np

from mc import alphabet as A
from mc import registry as R
from mc.drivers import c01, c13

PROPERTY = "C19"
LEVEL = "exploration"
ASSUMPTIONS = [
    "degenerate designs: all placements of an all-zero column (first/middle/last) in three full-rank designs, an all-zero group, "
    "duplicated / opposite / linearly dependent / constant columns, columns rescaled by 2^-10..2^10, n < p, a single feature, "
    "two samples; targets generic, all-zero, constant",
    "explanatory ValueError = python-level ValueError whose message matches the documented refusals of C13 (incl. the square-"
    "root loss' SmallResidualException); AttributeError refusals of unsupported combinations do not occur (domains are accepted ones)",
    "executions use the harness-capped inner budgets of C01; one task per domain additionally runs the default budgets under a "
    "CPU horizon (120 s per cell) so that non-termination is an observation",
    "Poisson / Gamma / Cox are not run on the 2^10-rescaled designs (exp leaves the float64 range)",
]


def designs():
    out = list(A.Z().items()) + list(A.K().items()) + list(A.S().items()) + list(A.ONE().items())
    out.append(("wide3x5", A.G_WIDE))
    zg = A.G_SQ.copy()
    zg[:, 2:] = 0.0
    out.append(("sq4x4-zerogroup", zg))
    out.append(("all-zero3x2", np.zeros((3, 2))))
    return out


def targets(kind, X):
    n = X.shape[0]
    base = R.targets(kind, X, "quick")
    if kind == "reg":
        return base[:1] + [("zero", np.zeros(n)), ("const", np.full(n, 2.0))]
    if kind == "multi":
        return base[:1] + [("zero", np.zeros((n, 2))), ("const", np.full((n, 2), 2.0))]
    if kind == "clf":
        return base[:1] + [("allpos", np.ones(n))]
    if kind == "count":
        return base[:1] + [("zero", np.zeros(n)), ("large", np.array([800., 1200., 950., 1000., 700., 1500., 900., 1100.])[:n])]   # exp(full Newton step) overflows
    return base[:1]


EXTRA = [("FISTA", "Quadratic", "L1", "denseF"), ("FISTA", "Quadratic", "L1", "csc"), ("FISTA", "Logistic", "L1", "denseF"),
         ("PDCD_WS", "SqrtQuadratic", "L1", "denseF"), ("PDCD_WS", "Pinball", "L1", "denseF")]


def domains(tier):
    D = R.domains(tier) + EXTRA + [("GroupBCD", "QuadraticGroup", "WeightedGroupL2-0", "denseF"), ("GroupBCD", "QuadraticGroup", "WeightedGroupL2-0", "csc"),
                                   ("GroupProxNewton", "LogisticGroup", "WeightedGroupL2-0", "denseF")]
    if tier == "quick":
        keep, seen = [], set()
        for d in D:
            key = (d[0], d[1], d[3]) if (d[0] not in ("AndersonCD", "GramCD") and not d[2].endswith("-0")) else d
            if key in seen:
                continue
            seen.add(key)
            keep.append(d)
        D = keep
    return D


def plan(tier, seed):
    tasks = []
    for (s, d, p, st) in domains(tier):
        for part in range(3):
            tasks.append(dict(op="domain", solver=s, datafit=d, pen=p, storage=st, weight=3, track=True, cpu_limit=300,
                              compile_allowance=600, part=part, nparts=3))
    return tasks


def variants(solver):
    K = R.KNOBS.get(solver, {})
    out = [{}]
    for name in ("ws_strategy", "fit_intercept", "greedy_cd", "p0"):      # (FISTA's fixpoint needs prox_vec: C13's business)
        if name in K:
            out.append({name: K[name][1][0]})
    if solver == "GramCD":
        out.append(dict(greedy_cd=False, use_acc=True))
    return out


def comps_for(task, tier):
    from mc.comp import fit_intercept_of
    s, dn, pk, st = task["solver"], task["datafit"], task["pen"], task["storage"]
    kind = R.KIND[dn]
    for ix, (xid, X) in enumerate(designs()):
        if ix % task.get("nparts", 1) != task.get("part", 0):
            continue
        if dn in ("Poisson", "Gamma", "Cox") and xid.startswith("scaled"):
            continue
        n, p = X.shape
        if dn == "Cox" and n > len(R.SURV[0]):
            continue
        for tname, y in targets(kind, X):
            if dn == "QuadraticSVC" and len(set(y)) < 2:
                continue
            for dspec in R.datafit_specs(dn, X, tier)[:2]:
                if pk.startswith("WeightedGroupL2") and (dspec is None or "grp_ptr" not in dspec):
                    continue
                p_eff = n if dn == "QuadraticSVC" else p
                Xeff = (X * y[:, None]).T if dn == "QuadraticSVC" else X
                fi_default = R.KNOBS.get(s, {}).get("fit_intercept", (False,))[0]
                multitask = y.shape[1] if kind == "multi" else 0
                for ps in R.penalty_specs(pk, dspec, Xeff, y, fi_default, "quick"):
                    for var in variants(s):
                        for defaults in (c01.HARNESS_DEFAULTS,):
                            kw = dict(defaults.get(s, {}))
                            kw.update(var)
                            kw = R.fix_kw(s, dn, kw)
                            sspec = dict(name=s, kw=kw)
                            W = R.starts(p_eff, fit_intercept_of(sspec), "quick", multitask) if s != "LBFGS" else []
                            for w0 in [None] + W[:1]:
                                comp = dict(solver=sspec, datafit={k: v for k, v in dspec.items() if k != "layout"} if dspec else None,
                                            penalty=ps, X=X.tolist(), y=y.tolist(), storage=st, xid=xid, target=tname)
                                if w0 is not None:
                                    if not R.start_in_range(dn, X, w0, fit_intercept_of(sspec)):
                                        continue
                                    comp["w_init"] = w0.tolist()
                                yield comp
                                if st == "csc" and not np.all(np.any(X, axis=0)) and not var:
                                    # the same all-zero columns stored as explicit zeros (scipy keeps them after masking)
                                    yield dict(comp, storage="csc_zeros")
    # default budgets (no harness cap) on the degenerate designs, cold start: the CPU horizon decides termination
    for ix, (xid, X) in enumerate(designs()[:9]):
        if ix % task.get("nparts", 1) != task.get("part", 0):
            continue
        if dn in ("Poisson", "Gamma", "Cox") and xid.startswith("scaled"):
            continue
        for tname, y in targets(kind, X)[:1]:
            if dn == "QuadraticSVC" and len(set(y)) < 2:
                continue
            for dspec in R.datafit_specs(dn, X, tier)[:1]:
                if pk.startswith("WeightedGroupL2") and (dspec is None or "grp_ptr" not in dspec):
                    continue
                Xeff = (X * y[:, None]).T if dn == "QuadraticSVC" else X
                fi_default = R.KNOBS.get(s, {}).get("fit_intercept", (False,))[0]
                for ps in R.penalty_specs(pk, dspec, Xeff, y, fi_default, "quick")[:1]:
                    yield dict(solver=dict(name=s, kw=R.fix_kw(s, dn, {})), datafit={k: v for k, v in dspec.items() if k != "layout"} if dspec else None,
                               penalty=ps, X=X.tolist(), y=y.tolist(), storage=st, xid=xid, target=tname, default_budget=True)


def judge(comp, res):
    from mc import comp as C
    out = []
    if res["status"] == "exc":
        e = res["exc"]
        if e["type"] == "ValueError" and not e["module"].startswith("numba") and c13.explained(e["message"], comp):
            return out
        out.append(("exception", f"{e['type']}: {e['message'][:160]} @ {e['frame']}", "finite solution or explanatory ValueError"))
        return out
    w, sc, hist = res["w"], res["stop_crit"], res["obj_out"]
    if not np.all(np.isfinite(w)):
        out.append(("non_finite_coefficients", w.tolist(), "finite"))
        return out
    if len(hist) and not np.all(np.isfinite(hist)):
        out.append(("non_finite_objective_history", hist.tolist()[-3:], "finite"))
    if np.isnan(sc):
        out.append(("nan_stop_value", sc, "a number"))
    s = comp["solver"]["name"]
    if sc <= C.tol_of(comp["solver"]):
        prob = C.problem_of(comp)
        X = prob["X"]
        p = X.shape[1]
        zero_cols = [j for j in range(p) if not np.any(X[:, j])]
        from mc.ref import pen as RP
        pen_mask = RP.is_penalized(comp["penalty"], p) if comp["penalty"]["name"] in RP.SEPARABLE else np.ones(p, bool)
        coef = w[:p]
        # exact zero is the unique coordinate-wise minimiser only for convex separable penalties; block penalties shrink a
        # warm-started coefficient geometrically and flat non-convex penalties leave it stationary: cold starts only there
        pname = comp["penalty"]["name"]
        exact = (pname in RP.CONVEX and pname in RP.SEPARABLE) or comp.get("w_init") is None
        if exact and pname not in ("L2", "PositiveConstraint", "IndicatorBox"):
            for j in zero_cols:
                if pen_mask[j] and np.any(coef[j] != 0):
                    out.append(("nonzero_coefficient_on_zero_column", dict(j=j, w=np.asarray(coef[j]).tolist()), 0.0))
                    break
        sq_kink = (comp["datafit"] or {}).get("name") == "SqrtQuadratic" and \
            np.linalg.norm(prob["y"] - X @ coef) <= 1e-8 * (1 + np.linalg.norm(prob["y"]))
        from mc.ref import cert as RC
        ill = False
        if C.strategy_of(comp["solver"]) == "fixpoint" and pname not in RP.CONVEX:
            L = RC.lipschitz(prob, w, "pn" if s in C.PN_KIND else "cd")
            ill = bool(np.any((L > 0) & (L < 1e-3)))      # prox steps > 1e3: the brute-force reference prox is ill-conditioned
        if s not in ("FISTA", "PDCD_WS") and not sq_kink and not ill:   # the sqrt loss is not differentiable at a zero residual
            viol, parts = C.certificate(comp, w)
            tol = C.tol_of(comp["solver"])
            scale = 1.0 + float(np.abs(X).sum()) * (1.0 + float(np.abs(prob["y"]).max()))
            bound = tol * (1 + 1e-6) + 1e-10 * scale
            if C.strategy_of(comp["solver"]) == "fixpoint" and comp["penalty"]["name"] not in RP.CONVEX:
                bound += 1e-6 * (1 + float(np.max(np.abs(coef))))   # accuracy of the brute-force reference prox
            if viol > bound:
                out.append(("certificate_invalid", dict(stop=sc, recomputed=viol), f"<= {bound}"))
    return out


def where_of(comp, res):
    X = np.array(comp["X"])
    gi = comp["penalty"].get("grp_indices")
    return dict(solver=comp["solver"]["name"], datafit=(comp["datafit"] or {}).get("name"), penalty=comp["penalty"]["name"],
                contiguous_groups=None if gi is None else list(gi) == list(range(len(gi))),
                storage=comp["storage"], zero_column=bool(np.any(~np.any(X, axis=0))), all_zero=not bool(np.any(X)),
                exc=(res.get("exc") or {}).get("type") if res else None)


def run(task, ctx):
    from mc import comp as C
    s = task["solver"]
    for idx, comp in enumerate(comps_for(task, ctx.tier)):
        if idx < task.get("start", 0):
            continue
        if comp.get("default_budget") or idx % 50 == 0:
            ctx.checkpoint(idx)
        res = C.execute(comp)
        ctx.count("executions")
        if res["status"] == "ok" and res["stop_crit"] <= C.tol_of(comp["solver"]):
            ctx.count("converged")
        if res["status"] == "exc":
            ctx.count("exceptions")
        ctx.obs(res["status"], res.get("w"), res.get("exc") and res["exc"]["type"], nontrivial=res["status"] == "ok")
        for kind, got, exp in judge(comp, res):
            ctx.violation(f"solver:{s}.degenerate", kind, dict(op="solve", comp=comp), got, exp, where=where_of(comp, res), rank=idx)
        if idx < 2:
            ctx.sample({k: comp[k] for k in ("solver", "datafit", "penalty", "xid", "target", "storage")})


def on_abort(task, idx, status, detail, ctx):
    comps = list(comps_for(task, ctx.tier))
    lo = idx
    comp = comps[min(lo, len(comps) - 1)]
    kind = "terminates_interpreter" if status == "died" else "does_not_terminate"
    ctx.count("executions")
    ctx.violation(f"solver:{task['solver']}.degenerate", kind, dict(op="solve", comp=comp, approx=not comp.get("default_budget")),
                  f"{status}: {detail}", "terminates", where=where_of(comp, None))


def replay(params):
    from mc import comp as C
    comp = params["comp"]
    res = C.execute(comp)
    v = judge(comp, res)
    return dict(violated=bool(v), kinds=[x[0] for x in v], **C.pack(res))


def describe(tier, agg):
    rule = ("per accepted compile domain (all solvers incl. FISTA, PDCD_WS; dense and CSC): degenerate designs (zero column at every "
            "placement, zero group, all-zero matrix, duplicated/opposite/dependent/constant columns, rescaled columns, n<p, one feature, "
            "two samples) x targets {generic, zero, constant} x alphas x knob variants (strategy, intercept, greedy/cyclic, p0) x "
            "{cold, warm}; outcome must be an explanatory ValueError or finite output, with the certificate and exact zeros on "
            "penalised all-zero columns whenever convergence is claimed; default-budget runs under a CPU horizon; distinct = "
            "distinct successful outcomes")
    return rule, {"executions": 5000, "converged": 1000}
