"""C16 — critical regularisation strength: null solution exactly from alpha_max (engine P)."""
import itertools

import numpy as np

from mc import alphabet as A
from mc import registry as R
from mc.ref import loss as RL

PROPERTY = "C16"
LEVEL = "exploration"
ASSUMPTIONS = [
    "the null model (loss-minimising intercept and unpenalised features, penalised coefficients 0) is computed by the reference "
    "(closed-form least squares for quadratic losses, Newton for the intercept of the logistic loss)",
    "alpha_max is the *library's* value: penalty.alpha_max(gradient at the null model) for separable penalties, "
    "_alpha_max_group_lasso(X, residual at the null model, ...) for groups, and the documented max_j ||X_j' R||_2 / n for the row "
    "penalty (it offers no method)",
    "at alpha_max (1 + 1e-8): penalised coefficients exactly 0 and unpenalised part within 1e-6 of the null model; at alpha_max "
    "(1 - 1e-3) (positive=False only): some penalised coefficient non-zero; fits use tol = 1e-10",
    "MCP penalties only where gamma > 1 / min_j L_j (their well-posed range); under fixed-point scoring with an unpenalised part to fit, "
    "'exactly zero' is read up to the tolerance (the criterion ||w - prox(w - grad/L)|| <= tol can stop one prox step before the exact zero)",
]

CASES = [
    # solver, kw, datafit, penalty key, storages
    ("AndersonCD", dict(), "Quadratic", "L1"), ("AndersonCD", dict(ws_strategy="fixpoint"), "Quadratic", "L1"),
    ("AndersonCD", dict(), "Quadratic", "L1_plus_L2"), ("AndersonCD", dict(), "Quadratic", "WeightedL1"), ("AndersonCD", dict(p0=1), "Quadratic", "WeightedL1"),
    ("ProxNewton", dict(p0=1), "Quadratic", "WeightedL1"), ("GroupBCD", dict(p0=1), "QuadraticGroup", "WeightedGroupL2"), ("AndersonCD", dict(), "Quadratic", "MCPenalty"),
    ("AndersonCD", dict(), "Quadratic", "WeightedMCPenalty"), ("AndersonCD", dict(), "Logistic", "L1"), ("AndersonCD", dict(), "Huber", "L1"),
    ("ProxNewton", dict(), "Logistic", "L1"), ("ProxNewton", dict(), "Logistic", "L1_plus_L2"), ("ProxNewton", dict(), "Quadratic", "WeightedL1"),
    ("GramCD", dict(), None, "L1"), ("GramCD", dict(greedy_cd=False, use_acc=True), None, "L1_plus_L2"), ("FISTA", dict(), "Quadratic", "L1"),
    ("GroupBCD", dict(), "QuadraticGroup", "WeightedGroupL2"), ("GroupBCD", dict(ws_strategy="fixpoint"), "QuadraticGroup", "WeightedGroupL2"),
    ("GroupBCD", dict(), "LogisticGroup", "WeightedGroupL2"), ("GroupProxNewton", dict(), "LogisticGroup", "WeightedGroupL2"),
    ("MultiTaskBCD", dict(), "QuadraticMultiTask", "L2_1"), ("MultiTaskBCD", dict(ws_strategy="fixpoint", use_acc=False), "QuadraticMultiTask", "L2_1"),
]


def plan(tier, seed):
    if tier == "quick":
        return [dict(op="case", case=i, weight=3) for i in range(len(CASES))] + [dict(op="sqrtlasso", weight=2)]
    return [dict(op="case", case=i, chunk=c, weight=3) for i in range(len(CASES)) for c in range(NCHUNK)] + [dict(op="sqrtlasso", weight=2)]


def null_model(dname, X, y, fit_intercept, unpen):
    """(u0 = linear predictor of the null model, b0, coefficients of the unpenalised features)."""
    n, p = X.shape
    cols = [X[:, j] for j in unpen]
    if dname in ("Quadratic", None, "QuadraticGroup", "Huber", "QuadraticMultiTask"):
        if dname == "Huber" and (cols or True):
            # Huber with delta large enough on these targets is not assumed: only intercept-free, unpenalised-free use
            pass
        Z = np.column_stack(cols + ([np.ones(n)] if fit_intercept else [])) if (cols or fit_intercept) else np.zeros((n, 0))
        if Z.shape[1] == 0:
            return (np.zeros_like(y, dtype=float), 0.0, np.zeros(0))
        sol = np.linalg.lstsq(Z, y, rcond=None)[0]
        u0 = Z @ sol
        b0 = sol[-1] if fit_intercept else (0.0 if y.ndim == 1 else np.zeros(y.shape[1]))
        return u0, b0, sol[:len(cols)]
    if dname in ("Logistic", "LogisticGroup"):
        b0 = RL.null_intercept(dict(name="Logistic"), y) if fit_intercept else 0.0
        return np.full(n, b0), b0, np.zeros(0)
    raise KeyError(dname)


def exec_case(params):
    import warnings
    from mc import build, comp as C
    from mc.ref import cert as RC
    from skglm.utils.data import _alpha_max_group_lasso
    sname, skw, dn, pk = params["solver"], params["kw"], params["datafit"], params["pen"]
    X = np.array(params["X"], dtype=float)
    y = np.array(params["y"], dtype=float)
    n, p = X.shape
    fi = params["fit_intercept"]
    out = []
    dspec = params["dspec"]
    pspec = dict(params["pspec"])
    weights = np.asarray(pspec.get("weights", np.ones(p)), dtype=float)
    unpen = [j for j in range(p) if pk in ("WeightedL1",) and weights[j] == 0]
    if dn == "Huber" and (fi or unpen):
        return out, None
    u0, b0, c0 = null_model(dn, X, y, fi, unpen)
    lspec = dspec or dict(name="Quadratic")
    g0 = X.T @ RL.grad(lspec, y, u0)
    # the library's critical value
    try:
        if pk == "WeightedGroupL2":
            amax = float(_alpha_max_group_lasso(X, (y - u0) if dn == "QuadraticGroup" else -len(y) * RL.grad(lspec, y, u0),
                                                np.asarray(pspec["grp_indices"], dtype=np.int32), np.asarray(pspec["grp_ptr"], dtype=np.int32),
                                                np.asarray(pspec["weights"], dtype=float)))
        elif pk == "L2_1":
            amax = float(np.max(np.linalg.norm(g0, axis=1)))
        else:
            amax = float(build.penalty(dict(pspec, alpha=1.0)).alpha_max(g0))
    except Exception as e:
        return [("alpha_max_raises", type(e).__name__ + ": " + str(e)[:100], "a number")], None
    if pk in ("MCPenalty", "WeightedMCPenalty"):
        # curvature along feature j once the unpenalised part (intercept) is minimised out: ||(I - P_Z) X_j||^2 / n
        Zc = [np.ones(n)] if fi else []
        Xe = X
        if Zc:
            Zm = np.column_stack(Zc)
            Xe = X - Zm @ np.linalg.lstsq(Zm, X, rcond=None)[0]
        Le = (Xe ** 2).sum(axis=0) / n
        Le = Le[(X != 0).any(axis=0)]
        wmax = float(np.max(weights)) if pk == "WeightedMCPenalty" else 1.0
        if fi and len(Le):
            # with an unpenalised part the iterates leave w = 0 transiently: they are only guaranteed to come back when the
            # objective is jointly convex, lambda_min(Xe' Xe / n) > 1 / gamma
            Le = np.array([float(np.linalg.eigvalsh(Xe.T @ Xe / n)[0])])
        if len(Le) == 0 or pspec["gamma"] * float(Le.min()) <= 1.0 + 1e-9:
            return out, None          # gamma <= 1 / L_j: outside MCP's well-posed range, w = 0 is stationary but not a coordinate-wise minimiser
    if np.max(np.abs(g0)) <= 1e-10 * (1 + float(np.max(np.abs(y)))):
        return out, None              # the null model already fits: every alpha is critical
    if not np.isfinite(amax) or amax <= 0:
        if np.max(np.abs(g0)) <= 1e-12:
            return out, None
        return [("alpha_max_not_finite_positive", amax, "finite > 0")], None
    skw2 = dict(skw, tol=1e-10)
    if sname in ("AndersonCD", "MultiTaskBCD"):
        skw2.setdefault("max_epochs", 5000)
    if "fit_intercept" in R.KNOBS.get(sname, {}):
        skw2["fit_intercept"] = fi
    obs = {}
    for tag, fac in (("above", 1 + 1e-8), ("far_above", 10.0), ("below", 1 - 1e-3)):
        comp = dict(solver=dict(name=sname, kw=skw2), datafit=dspec, penalty=dict(pspec, alpha=amax * fac), X=params["X"], y=params["y"],
                    storage=params["storage"])
        res = C.execute(comp)
        if res["status"] != "ok":
            from mc.drivers import c13
            if res["exc"]["type"] in ("AttributeError", "ValueError") and c13.explained(res["exc"]["message"], comp):
                continue                                  # unsupported representation, refused with an explanation
            out.append(("exception", res["exc"]["type"] + ": " + res["exc"]["message"][:100], "solve succeeds"))
            continue
        converged = bool(res["stop_crit"] <= 1e-10)    # the null-model equalities need a convergence claim; the zero / non-zero pattern does not
        w = res["w"]
        coef = w[:p]
        obs[tag] = w
        pen_idx = [j for j in range(p) if j not in unpen]
        nz = np.any(coef[pen_idx] != 0) if coef.ndim == 1 else np.any(coef[pen_idx] != 0)
        if tag in ("above", "far_above") and nz and skw.get("ws_strategy") == "fixpoint" and (fi or unpen) and np.max(np.abs(coef[pen_idx])) <= 1e-10:
            # fixed-point scoring stops as soon as ||w - prox(w - grad/L)|| <= tol: a block made transiently non-zero while the
            # unpenalised part was being fitted may be returned one prox step (of length <= tol) before it becomes exactly zero
            nz = False
        if tag in ("above", "far_above"):
            # with an intercept / unpenalised features to fit, penalised coefficients may be transiently non-zero before convergence
            if nz and not (converged or (not fi and not unpen)):
                pass
            elif nz:
                out.append(("nonzero_at_alpha_max", dict(alpha_max=amax, coef=np.asarray(coef).tolist()), "penalised coefficients exactly 0"))
            elif converged:
                scale = 1 + float(np.max(np.abs(y)))
                Zc = [X[:, j] for j in unpen] + ([np.ones(n)] if fi else [])
                unique = (not Zc) or np.linalg.matrix_rank(np.column_stack(Zc)) == len(Zc)
                if dn not in ("Logistic", "LogisticGroup"):
                    # the linear predictor of the null model is unique even when its coefficients are not
                    pred = X @ coef + (w[p] if fi else 0.0)
                    if np.max(np.abs(pred - u0)) > 1e-6 * scale:
                        out.append(("null_model_predictor_differs", np.asarray(pred).tolist(), np.asarray(u0).tolist()))
                if not unique:
                    pass
                elif fi:
                    b = w[p]
                    if np.max(np.abs(np.asarray(b) - np.asarray(b0))) > 1e-6 * scale:
                        out.append(("intercept_not_null_model", np.asarray(b).tolist(), np.asarray(b0).tolist()))
                if unique and unpen and np.max(np.abs(coef[unpen] - c0)) > 1e-6 * scale:
                    out.append(("unpenalised_part_not_null_model", coef[unpen].tolist(), c0.tolist()))
        else:
            if not nz and not pspec.get("positive"):
                out.append(("zero_below_alpha_max", dict(alpha_max=amax, factor=fac), "some penalised coefficient non-zero"))
    return out, obs.get("below")


NCHUNK = 3


def cases_for(i, tier, chunk=None):
    sname, skw, dn, pk = CASES[i]
    kind = R.KIND[dn]
    designs = [("tall6x3", A.G_TALL), ("wide3x5", A.G_WIDE), ("sq4x4", A.G_SQ), ("dup", A.K()["dup"])]
    if tier != "quick":
        # every {-1,0,1} design with 4 samples x 2 features (one per row-permutation / sign orbit)
        designs += [("T42o%d" % k, X) for k, X in enumerate(A.T_orbits(4, 2)) if np.any(X)]
    for di, (xid, X) in enumerate(designs):
        if chunk is not None and di % NCHUNK != chunk:
            continue
        n, p = X.shape
        tgs = R.targets(kind, X, tier)
        if kind == "clf":
            tgs = tgs + [("unbalanced", np.array([1., 1., 1., -1., 1., -1., 1., 1.])[:n])]      # null-model intercept != 0
        if kind == "multi":                       # one task whose null-model intercept is exactly 0 next to tasks with a large one
            g = A.reg_targets(X)["generic"]
            tgs = tgs + [("centred+shifted", np.column_stack([g - g.mean(), g + 5.0, g + 2.0]))]
        for tname, y in tgs:
            for dspec in R.datafit_specs(dn, X, "thorough" if tier != "quick" else "quick")[:2]:
                fis = [True, False] if "fit_intercept" in R.KNOBS.get(sname, {}) else [False]
                for fi in fis:
                    for variant in range(2):
                        ps = None
                        if pk == "L1":
                            ps = dict(name="L1", positive=bool(variant))
                        elif pk == "L1_plus_L2":
                            ps = dict(name="L1_plus_L2", l1_ratio=(1.0, 0.5)[variant], positive=False)
                        elif pk == "WeightedL1":
                            ps = dict(name="WeightedL1", weights=([1.0, 2.0, 0.5, 3.0, 1.0], [1.0, 0.0, 2.0, 0.5, 0.0])[variant][:p], positive=False)
                        elif pk == "MCPenalty":
                            ps = dict(name="MCPenalty", gamma=(3.0, 10.0)[variant], positive=False)
                        elif pk == "WeightedMCPenalty":
                            ps = dict(name="WeightedMCPenalty", gamma=3.0, weights=([1.0, 2.0, 0.5, 3.0, 1.0], [2.0, 1.0, 1.0, 0.5, 3.0])[variant][:p], positive=False)
                        elif pk == "WeightedGroupL2":
                            if dspec is None or "grp_ptr" not in dspec:
                                continue
                            G = len(dspec["grp_ptr"]) - 1
                            ps = dict(name="WeightedGroupL2", weights=([1.0, 1.0, 1.0, 1.0, 1.0], [1.0, 2.0, 0.5, 3.0, 1.5])[variant][:G], grp_ptr=dspec["grp_ptr"],
                                      grp_indices=dspec["grp_indices"], positive=False)
                        elif pk == "L2_1":
                            if variant:
                                continue
                            ps = dict(name="L2_1")
                        for st in (("denseF", "csc") if tier != "quick" or xid == "tall6x3" else ("denseF",)):
                            yield dict(op="case", solver=sname, kw=skw, datafit=dn, pen=pk, X=X.tolist(), y=y.tolist(), xid=xid, target=tname,
                                       dspec={k: v for k, v in dspec.items() if k != "layout"} if dspec else None, pspec=ps, fit_intercept=fi, storage=st)


def run(task, ctx):
    if task["op"] == "sqrtlasso":
        return run_sqrt(ctx)
    n = 0
    for params in cases_for(task["case"], ctx.tier, task.get("chunk")):
        v, w = exec_case(params)
        n += 1
        ctx.count("problems")
        if w is not None and np.any(w):
            ctx.count("nonzero_below")
        ctx.obs(w, nontrivial=w is not None and bool(np.any(w)))
        for kind, got, exp in v:
            ctx.violation(f"alpha_max:{params['solver']}|{params['pen']}", kind, params, got, exp,
                          where=dict(solver=params["solver"], penalty=params["pen"], datafit=params["datafit"], fit_intercept=params["fit_intercept"],
                                     l1_ratio=(params["pspec"] or {}).get("l1_ratio")))
        if n <= 1:
            ctx.sample({k: params[k] for k in ("solver", "kw", "datafit", "pspec", "fit_intercept", "xid", "target", "storage")})


def exec_sqrt(params):
    import warnings
    from skglm.experimental.sqrt_lasso import SqrtLasso
    X = np.array(params["X"], dtype=float)
    y = np.array(params["y"], dtype=float)
    out = []
    with warnings.catch_warnings():
        warnings.simplefilter("ignore")
        est = SqrtLasso(tol=1e-10)
        alphas, coefs = est.path(X, y, alphas=None, n_alphas=3)
    amax = float(np.max(np.abs(X.T @ y)) / np.linalg.norm(y))            # documented objective ||y - Xw||_2 + alpha ||w||_1
    if np.any(coefs[0] != 0):
        out.append(("nonzero_at_alpha_max", coefs[0].tolist(), "zero at the first alpha of the automatic path"))
    if abs(alphas[0] - amax) > 1e-10 * (1 + amax):
        out.append(("alpha_max_not_critical_value", float(alphas[0]), amax))
    with warnings.catch_warnings():
        warnings.simplefilter("ignore")
        c2 = SqrtLasso(alpha=amax * (1 - 1e-3), tol=1e-10).fit(X, y).coef_
    if not np.any(c2):
        out.append(("zero_below_alpha_max", amax, "non-zero"))
    return out, c2


def run_sqrt(ctx):
    designs = [("tall6x3", A.G_TALL), ("sq4x4", A.G_SQ), ("dup", A.K()["dup"])]
    if ctx.tier != "quick":
        designs += [("T42o%d" % k, X) for k, X in enumerate(A.T_orbits(4, 2)) if np.any(X)]
    for xid, X in designs:
        for tname, y in R.targets("reg", X, ctx.tier):
            if not np.any(X.T @ y):
                continue                  # alpha_max = 0: every alpha is critical
            params = dict(op="sqrtlasso", X=X.tolist(), y=y.tolist(), xid=xid)
            v, w = exec_sqrt(params)
            ctx.count("problems")
            ctx.obs(w, nontrivial=bool(np.any(w)))
            for kind, got, exp in v:
                ctx.violation("alpha_max:SqrtLasso", kind, params, got, exp, where=dict(solver="SqrtLasso"))
    ctx.sample(dict(op="sqrtlasso"))


def replay(params):
    from mc.core import fhex
    v, w = exec_sqrt(params) if params["op"] == "sqrtlasso" else exec_case(params)
    return dict(violated=bool(v), kinds=[x[0] for x in v], detail=fhex([[x[0], x[1], x[2]] for x in v[:5]]), w=fhex(w))


def describe(tier, agg):
    rule = ("23 (solver, strategy, p0, datafit, penalty) cases covering every penalty with alpha_max, the group helper and the row penalty x "
            "designs {6x3, 3x5, 4x4, duplicated column} x targets incl. a non-centred one x intercept on/off x penalty variants (positive, "
            "l1_ratio in {1, .5}, weights incl. zeros, gamma) x dense/CSC; the library's alpha_max from the reference gradient at the "
            "reference null model; solves at alpha_max (1 + 1e-8) and (1 - 1e-3); SqrtLasso's automatic path; distinct = distinct non-zero "
            "solutions just below alpha_max")
    return rule, {"problems": 200, "nonzero_below": 100}
