"""C04 — constraints hold and output is finite at every stopping point (engine B)."""
import numpy as np

from mc import registry as R
from mc import traj
from mc.drivers import c01, c03

PROPERTY = "C04"
LEVEL = "model_checking"
ASSUMPTIONS = [
    "warm starts of exp-based losses (logistic, Poisson, Gamma, Cox) are kept inside |X w0 + b| <= 30 (float64 saturation regime excluded)",
    "feasible warm starts must stay feasible at every node; infeasible warm starts (negative entries, entries above the box) must "
    "be feasible at every node with outer budget >= 1 (budget 0 returns the start untouched by construction)",
    "finiteness is required of coefficients and objective history at every node, and of the stopping value once at least one "
    "outer iteration ran (budget 0 returns the documented 'unknown' value inf)",
    "Poisson / Gamma / Cox are not run on the 2^10-rescaled designs: their documented loss exp(Xw) exceeds the float64 range "
    "there (Logistic is, since its loss is representable)",
]

DOMAINS = [
    ("AndersonCD", "Quadratic", "L1+", "denseF"), ("AndersonCD", "Quadratic", "L1+", "csc"),
    ("AndersonCD", "Quadratic", "L1_plus_L2+", "denseF"), ("AndersonCD", "Quadratic", "WeightedL1+", "denseF"),
    ("AndersonCD", "Quadratic", "MCPenalty+", "denseF"), ("AndersonCD", "Quadratic", "PositiveConstraint", "denseF"),
    ("AndersonCD", "Quadratic", "WeightedMCPenalty+0", "denseF"), ("AndersonCD", "Quadratic", "WeightedMCPenalty+0", "csc"),
    ("AndersonCD", "Quadratic", "WeightedL1+", "csc"),
    ("AndersonCD", "Logistic", "L1+", "denseF"), ("AndersonCD", "Huber", "L1+", "denseF"),
    ("AndersonCD", "QuadraticSVC", "IndicatorBox", "denseF"), ("AndersonCD", "QuadraticSVC", "IndicatorBox", "csc"),
    ("GramCD", None, "L1+", "denseF"), ("GramCD", None, "WeightedL1+", "denseF"), ("GramCD", None, "MCPenalty+", "denseF"),
    ("ProxNewton", "Logistic", "L1+", "denseF"), ("ProxNewton", "Poisson", "L1+", "denseF"), ("ProxNewton", "Logistic", "L1+", "csc"),
    ("FISTA", "Quadratic", "L1+", "denseF"), ("FISTA", "Quadratic", "PositiveConstraint", "denseF"), ("FISTA", "QuadraticSVC", "IndicatorBox", "denseF"),
    ("FISTA", "Quadratic", "L1+", "csc"),
    ("GroupBCD", "QuadraticGroup", "WeightedGroupL2+", "denseF"), ("GroupBCD", "QuadraticGroup", "WeightedGroupL2+", "csc"),
    ("GroupBCD", "LogisticGroup", "WeightedGroupL2+", "denseF"), ("GroupProxNewton", "LogisticGroup", "WeightedGroupL2+", "denseF"),
    ("GroupBCD", "QuadraticGroup", "WeightedGroupL2+0", "denseF"), ("GroupBCD", "QuadraticGroup", "WeightedGroupL2+0", "csc"),
    ("GroupProxNewton", "LogisticGroup", "WeightedGroupL2+0", "denseF"),
    ("PDCD_WS", "SqrtQuadratic", "L1+", "denseF"), ("PDCD_WS", "Pinball", "L1+", "denseF"),
]


def plan(tier, seed):
    tasks = []
    for (s, d, p, st) in DOMAINS:
        for part in range(2):
            tasks.append(dict(op="traj", solver=s, datafit=d, pen=p, storage=st, part=part, nparts=2, weight=4))
    tasks.append(dict(op="estimators", weight=5))
    tasks += [dict(op="gram_family", part=k, weight=3) for k in range(2)]
    return tasks


def run_gram_family(task, ctx):
    """GramCD(use_acc=True) with L1(positive=True) on the correlated family of C03: feasible and finite at every budget 1..21
    (an extrapolated point below zero must never be accepted)."""
    from mc import comp as C
    from mc.drivers import c03
    n = 0
    for comp in c03.gram_acc_comps(task, ctx.tier):
        if not comp["penalty"].get("positive"):
            continue
        n += 1
        for k in range(1, 22):
            c = dict(comp, solver=dict(comp["solver"], kw=dict(comp["solver"]["kw"], max_iter=k)))
            r = C.execute(c)
            ctx.states += 1
            ctx.transitions += 1
            ctx.count("gram_family_states")
            if r["status"] != "ok":
                ctx.violation("solver:GramCD.feasibility", "exception", dict(op="gram_node", comp=c), r["exc"]["type"], "a solution",
                              where=dict(solver="GramCD", family="correlated"))
                break
            w = r["w"]
            ctx.obs(w, nontrivial=bool(np.any(w)))
            bad = []
            if not np.all(np.isfinite(w)) or not np.all(np.isfinite(r["obj_out"])):
                bad.append(("non_finite_output", w.tolist()))
            elif np.any(w < 0):
                bad.append(("negative_coefficient", float(w.min())))
            for kind, got in bad:
                ctx.violation("solver:GramCD.feasibility", kind, dict(op="gram_node", comp=c), got, ">= 0 and finite",
                              where=dict(solver="GramCD", family="correlated"))
            if r["stop_crit"] <= 1e-14:
                break
    ctx.sample(dict(op="gram_family", columns=n))


def neg_targets(kind, X):
    n = X.shape[0]
    if kind == "reg":
        return [("neg", -X[:, 0] - 0.5 * X[:, min(1, X.shape[1] - 1)] + 0.25), ("mixed", X @ (np.arange(X.shape[1]) % 2 * 2.0 - 1.0))]
    return R.targets(kind, X, "quick")[:1]


def feasible_starts(p, fit_intercept, C=None):
    hi = 2.0 if C is None else C
    W = [np.full(p, hi), np.eye(p)[0] * hi, (np.arange(p) % 2) * hi / 2]
    return [np.append(w, -0.5) if fit_intercept else w for w in W]


def infeasible_starts(p, fit_intercept, C=None):
    """Starts outside the feasible set: the solver must be back inside it after one outer iteration."""
    hi = 2.0 if C is None else C
    W = [np.full(p, -1.0), np.full(p, 2 * hi) if C is not None else -(np.arange(p) % 2 + 1.0), np.where(np.arange(p) % 2 == 0, -0.5, hi)]
    return [np.append(w, -0.5) if fit_intercept else w for w in W]


def base_comps(task, tier):
    from mc.comp import fit_intercept_of
    s, dn, pk, st = task["solver"], task["datafit"], task["pen"], task["storage"]
    kind = R.KIND[dn]
    for ix, (xid, X) in enumerate(R.solve_designs(tier)):
        if ix % task["nparts"] != task["part"]:
            continue
        if dn in ("Poisson", "Gamma", "Cox") and xid.startswith("scaled"):
            continue            # exp(Xw) itself leaves the float64 range on the 2^10-rescaled designs: outside the alphabet
        for tname, y in neg_targets(kind, X):
            for dspec in R.datafit_specs(dn, X, tier)[:1]:
                if pk.startswith("WeightedGroupL2") and (dspec is None or "grp_ptr" not in dspec):
                    continue
                p_eff = X.shape[0] if dn == "QuadraticSVC" else X.shape[1]
                Xeff = (X * y[:, None]).T if dn == "QuadraticSVC" else X
                fi_default = R.KNOBS[s].get("fit_intercept", (False,))[0]
                for ps in R.penalty_specs(pk, dspec, Xeff, y, fi_default, tier):
                    for var in c03.variants(s, tier)[:4] + [dict(tol=1e-2)]:
                        kw = dict(tol=1e-10)
                        kw.update(var)
                        kw = R.fix_kw(s, dn, kw)
                        sspec = dict(name=s, kw=kw)
                        Cbox = ps.get("alpha") if ps["name"] == "IndicatorBox" else None
                        feas = feasible_starts(p_eff, fit_intercept_of(sspec), Cbox)
                        starts = [None] + feas + infeasible_starts(p_eff, fit_intercept_of(sspec), Cbox)
                        for i0, w0 in enumerate(starts):
                            comp = dict(solver=sspec, datafit={k: v for k, v in dspec.items() if k != "layout"} if dspec else None,
                                        penalty=ps, X=X.tolist(), y=y.tolist(), storage=st, xid=xid)
                            if w0 is not None:
                                if not R.start_in_range(dn, X, w0, fit_intercept_of(sspec)):
                                    continue
                                comp["w_init"] = w0.tolist()
                                comp["infeasible_start"] = i0 > len(feas)
                            yield comp


def node_violations(comp, c, r, k):
    from mc import comp as C
    out = []
    if r["status"] != "ok":
        return out                          # exceptions are C13/C19's business
    prob = C.problem_of(comp)
    p = prob["X"].shape[1]
    w = r["w"]
    coef = w[:p]
    ps = comp["penalty"]
    if comp.get("infeasible_start") and k == 0:
        return out                      # budget 0 returns the (infeasible) start untouched by construction
    if not np.all(np.isfinite(w)):
        out.append(("non_finite_coefficients", w.tolist(), "finite"))
        return out
    if np.any(coef < 0):
        out.append(("negative_coefficient", float(coef.min()), ">= 0"))
    if ps["name"] == "IndicatorBox" and np.any(coef > ps["alpha"]):
        out.append(("above_box", float(coef.max()), f"<= {ps['alpha']}"))
    if len(r["obj_out"]) and not np.all(np.isfinite(r["obj_out"])):
        out.append(("non_finite_objective_history", r["obj_out"].tolist(), "finite"))
    # the stopping value describes the iterate at the start of the last outer iteration: from an infeasible start it is
    # legitimately inf after a single iteration
    if k >= (2 if comp.get("infeasible_start") else 1) and not np.isfinite(r["stop_crit"]):
        out.append(("non_finite_stop_value", r["stop_crit"], "finite"))
    return out


def run(task, ctx):
    from mc import comp as C
    if task["op"] == "estimators":
        return run_estimators(task, ctx)
    if task["op"] == "gram_family":
        return run_gram_family(task, ctx)
    tier = ctx.tier
    s = task["solver"]
    ks, es = traj.grid(s, tier)
    n = 0
    for comp in base_comps(task, tier):
        nodes, edges = traj.explore(comp, ks, es, c01.HARNESS_DEFAULTS, C.execute)
        n += 1
        touched = False
        for (k, e), (c, r) in nodes.items():
            ctx.states += 1
            if r["status"] == "ok":
                p = C.problem_of(comp)["X"].shape[1]
                if np.any(r["w"][:p] == 0) and np.any(r["w"][:p] != 0):
                    touched = True
            for kind, got, exp in node_violations(comp, c, r, k):
                ctx.violation(f"solver:{s}.feasibility", kind, dict(op="node", comp=c), got, exp,
                              where=dict(solver=s, penalty=comp["penalty"]["name"], datafit=(comp["datafit"] or {}).get("name"),
                                         infeasible_start=bool(comp.get("infeasible_start")),
                                         zero_column=bool(np.any(~np.any(np.array(comp["X"]), axis=0)))),
                              rank=n)
        ctx.transitions += len(edges)
        if touched:
            ctx.count("boundary_touched")
        ctx.count("trajectories")
        ws = [r["w"] for (_, r) in nodes.values() if r["status"] == "ok"]
        ctx.obs(ws, nontrivial=touched, n=len(nodes))
        if n <= 2:
            ctx.sample(dict(comp={k: comp[k] for k in ("solver", "datafit", "penalty", "xid", "storage")}, ks=ks, es=es))
    c03.count_extrapolations(task, ctx)


# ----------------------------------------------------------------------------------- estimators

def est_cases(tier):
    for xid, X in R.solve_designs(tier)[:4]:
        yneg = neg_targets("reg", X)
        for tname, y in yneg:
            for est, extra in (("Lasso", {}), ("ElasticNet", dict(l1_ratio=0.5)), ("WeightedLasso", dict(weights=R.WEIGHTS[:X.shape[1]])),
                               ("MCPRegression", dict(gamma=3.0)), ("GroupLasso", dict(groups=1))):
                for mi, me in ((1, 7), (1, 8), (2, 7), (3, 14), (50, 1000)):
                    for fi in (True, False):
                        yield dict(est=est, kw=dict(alpha=0.05, positive=True, max_iter=mi, max_epochs=me, tol=1e-10, fit_intercept=fi, **extra),
                                   X=X.tolist(), y=y.tolist(), xid=xid)
        ylab = R.targets("clf", X, tier)[0][1]
        for Cc in (0.1, 1.0):
            for mi, me in ((1, 7), (2, 7), (3, 14), (50, 1000)):
                yield dict(est="LinearSVC", kw=dict(C=Cc, max_iter=mi, max_epochs=me, tol=1e-10), X=X.tolist(), y=ylab.tolist(), xid=xid)


def exec_estimator(case):
    import skglm
    X = np.array(case["X"], dtype=float)
    y = np.array(case["y"], dtype=float)
    viol = []
    try:
        est = getattr(skglm, case["est"])(**case["kw"])
        est.fit(X, y)
    except Exception as e:
        return dict(status="exc", exc=type(e).__name__ + ": " + str(e)[:120], viol=[], coef=None)
    if case["est"] == "LinearSVC":
        dual = np.asarray(est.dual_coef_, dtype=float).ravel()
        if not np.all(np.isfinite(dual)) or not np.all(np.isfinite(est.coef_)):
            viol.append(("non_finite_coefficients", dual.tolist(), "finite"))
        elif np.any(dual < 0) or np.any(dual > case["kw"]["C"]):
            viol.append(("dual_outside_box", [float(dual.min()), float(dual.max())], f"in [0, {case['kw']['C']}]"))
        return dict(status="ok", viol=viol, coef=dual)
    coef = np.asarray(est.coef_, dtype=float)
    if not np.all(np.isfinite(coef)) or not np.all(np.isfinite(np.atleast_1d(est.intercept_))):
        viol.append(("non_finite_coefficients", coef.tolist(), "finite"))
    elif np.any(coef < 0):
        viol.append(("negative_coefficient", float(coef.min()), ">= 0"))
    return dict(status="ok", viol=viol, coef=coef)


def run_estimators(task, ctx):
    for case in est_cases(ctx.tier):
        res = exec_estimator(case)
        ctx.states += 1
        ctx.count("estimator_fits")
        if res["status"] != "ok":
            ctx.count("estimator_exceptions")
            ctx.obs(res["exc"], nontrivial=False)
            continue
        ctx.obs(res["coef"], nontrivial=bool(np.any(res["coef"])))
        for kind, got, exp in res["viol"]:
            ctx.violation(f"estimator:{case['est']}.coef_", kind, dict(op="estimator", case=case), got, exp,
                          where=dict(estimator=case["est"]))
    ctx.sample(dict(op="estimators", list=["Lasso", "ElasticNet", "WeightedLasso", "MCPRegression", "GroupLasso", "LinearSVC"]))


def replay(params):
    from mc import comp as C
    from mc.core import fhex
    if params["op"] == "estimator":
        res = exec_estimator(params["case"])
        return dict(violated=bool(res["viol"]), kinds=[v[0] for v in res["viol"]], coef=fhex(res.get("coef")), status=res["status"])
    comp = params["comp"]
    r = C.execute(comp)
    if params["op"] == "gram_node":
        bad = r["status"] != "ok" or not np.all(np.isfinite(r["w"])) or bool(np.any(r["w"] < 0))
        return dict(violated=bool(bad), kinds=["infeasible_or_non_finite"] if bad else [], **C.pack(r))
    k = comp["solver"]["kw"].get(R.OUTER[comp["solver"]["name"]], 1)
    v = node_violations(comp, comp, r, k)
    return dict(violated=bool(v), kinds=[x[0] for x in v], **C.pack(r))


def describe(tier, agg):
    rule = ("engine B: every constrained penalty (positive=True variants, PositiveConstraint, IndicatorBox, positive group) x every "
            "solver accepting it (AndersonCD, GramCD, ProxNewton, FISTA, GroupBCD, GroupProxNewton, PDCD_WS; dense + CSC) x designs x "
            "targets chosen so that the unconstrained solution has negative entries x alphas x knob variants x {cold, 3 feasible and 3 infeasible "
            "warm starts}: every stopping point of the budget rectangle is a state; feasibility is exact (w >= 0, w <= C), all numbers "
            "finite; plus positive=True estimators and LinearSVC.dual_coef_ under 5 budgets; distinct = trajectories whose "
            "iterates touch the boundary")
    return rule, {"trajectories": 300, "boundary_touched": 100, "accepted_extrapolations": 1, "estimator_fits": 100}
