"""C10 — results do not depend on how X is stored (engine P)."""
import numpy as np
import scipy.sparse as sp

from mc import alphabet as A
from mc import registry as R
from mc.drivers import c01, c13
from mc.ref import cert as RC
from mc.ref import pen as RP

PROPERTY = "C10"
LEVEL = "exploration"
ASSUMPTIONS = [
    "solver level: the same composition is solved with X as dense Fortran, dense C, CSC (int32 and int64 indices), CSC with reversed "
    "(unsorted) indices and CSC with explicit stored zeros; estimator level: ndarray (C/F), list of lists, CSR, CSC, float32 ndarray / CSC",
    "two converged results of a convex problem are compared through the optimality-gap theorem in both directions (and coefficient-wise "
    "when the problem is strongly convex); non-convex problems must reach objectives equal to 1e-6 relative; float32: 1e-4",
    "a representation a component lacks must be refused by AttributeError / ValueError / TypeError whose message names it",
]
STORAGES = ["denseF", "denseC", "csc", "csc64", "csc_unsorted", "csc_zeros"]


def to_storage(X, kind):
    from mc import build
    if kind == "csc_zeros":
        M = sp.csc_matrix(np.where(X == 0, 1.0, X))
        M.data = M.data * (np.asarray(X.T[X.T == X.T]).size and 1.0)
        # rebuild with explicit zeros: start from a full pattern, then write the true values
        full = sp.csc_matrix(np.ones_like(X))
        full.data = np.asfortranarray(X).ravel(order="F").copy()
        return full
    return build.storage(X, kind)


def domains(tier):
    D = sorted({(s, d, p) for (s, d, p, st) in R.domains(tier)}, key=str)
    D += [("FISTA", "Quadratic", "L1"), ("FISTA", "Logistic", "L1"), ("FISTA", "QuadraticSVC", "IndicatorBox"), ("PDCD_WS", "SqrtQuadratic", "L1")]
    if tier == "quick":
        keep, seen = [], set()
        for d in D:
            key = (d[0], d[1], d[2].startswith("Weighted"))       # index-dependent (weighted) penalties are kept for every solver
            if key in seen and d[0] != "AndersonCD":
                continue
            seen.add(key)
            keep.append(d)
        D = keep
    return D


def plan(tier, seed):
    tasks = [dict(op="solver", solver=s, datafit=d, pen=p, weight=4) for (s, d, p) in domains(tier)]
    tasks += [dict(op="estimator", est=e, weight=3) for e in EST]
    # the extrapolating solvers on C03's correlated family with an (uncentred) intercept: dense vs CSC
    tasks += [dict(op="corr", solver=sn, datafit=dn, pen=pk, weight=3) for sn, dn, pk in
              (("AndersonCD", "Quadratic", "L1"), ("GroupBCD", "QuadraticGroup", "WeightedGroupL2"), ("MultiTaskBCD", "QuadraticMultiTask", "L2_1"))]
    return tasks


def corr_comps(task, tier):
    from mc.drivers import c03
    for part in (0, 1):
        for c in c03.acc_family_comps(dict(solver=task["solver"], part=part), tier):
            kw = dict(c["solver"]["kw"], fit_intercept=True, tol=1e-9, max_iter=200)
            if kw.get("p0") != 2 or kw.get("max_epochs") != 12:
                continue
            y = np.array(c["y"], dtype=float) + 3.0
            yield dict(solver=dict(name=task["solver"], kw=kw), datafit=c["datafit"], penalty=c["penalty"], X=c["X"], y=y.tolist(), xid=c["xid"] + "+icpt")


def run_storage(comp, kind):
    """Like comp.execute but with the extra storage kinds of this driver."""
    from mc import comp as C, build
    import warnings
    prob = C.problem_of(comp)
    res = dict(status="ok", exc=None)
    try:
        with warnings.catch_warnings():
            warnings.simplefilter("ignore")
            X = to_storage(prob["X"], kind)
            y = np.asfortranarray(prob["y"]) if prob["y"].ndim == 2 else prob["y"].copy()
            solver = build.solver(comp["solver"])
            datafit = build.datafit(comp.get("datafit"))
            penalty = build.penalty(comp["penalty"])
            if datafit is not None:
                if sp.issparse(X) and hasattr(datafit, "initialize_sparse"):
                    datafit.initialize_sparse(X.data, X.indptr, X.indices, y)
                elif hasattr(datafit, "initialize"):
                    datafit.initialize(prob["X"] if sp.issparse(X) else X, y)
            from mc.core import derive_seed
            build.seed_numba(derive_seed("solve", comp["solver"]["name"], comp.get("datafit"), "storage", comp["X"]))
            w0 = Xw0 = None
            if comp.get("w_init") is not None:                     # warm start with its consistent model fit (fresh buffers per storage)
                w0 = np.array(comp["w_init"], dtype=float)
                Xw0 = RC.linear_predictor(prob, w0)
                if Xw0.ndim == 2:
                    w0, Xw0 = np.ascontiguousarray(w0), np.asfortranarray(Xw0)
            w, hist, sc = solver.solve(X, y, datafit, penalty, w0, Xw0)
        res.update(w=np.array(w, dtype=float), stop_crit=float(sc), obj_out=np.atleast_1d(np.array(hist, dtype=float)))
    except BaseException as e:
        if isinstance(e, (KeyboardInterrupt, SystemExit, MemoryError)):
            raise
        import re
        res.update(status="exc", exc=dict(type=type(e).__name__, module=type(e).__module__,
                                          message=re.sub(r"(0x|#)[0-9a-fA-F]{5,}", "#ADDR", str(e))[:300], frame=""))
    return res


def judge_group(comp, results):
    """results: {storage: res}.  Returns list of (kind, storage, observed, expected)."""
    from mc import comp as C
    out = []
    prob = C.problem_of(comp)
    tol = C.tol_of(comp["solver"])
    convex = comp["penalty"]["name"] in RP.CONVEX
    ok = {}
    for st, r in results.items():
        if r["status"] == "exc":
            e = r["exc"]
            if e["type"] in ("AttributeError", "ValueError", "TypeError") and not e["module"].startswith("numba") and \
                    (c13.explained(e["message"], comp) or "not yet supported" in e["message"]):
                continue
            out.append(("unexplained_failure_for_representation", st, f"{e['type']}: {e['message'][:140]}", "result or explanatory refusal"))
            continue
        if not np.all(np.isfinite(r["w"])):
            continue
        if r["stop_crit"] <= tol or comp["solver"]["name"] in ("FISTA", "PDCD_WS", "LBFGS"):
            ok[st] = r
    ref_st = next((s for s in STORAGES if s in ok), None)
    if ref_st is None:
        return out
    wr = ok[ref_st]["w"]
    Fr = RC.objective(prob, wr)
    for st, r in results.items():          # same budget, same algorithm: a representation that does not get there gives another answer
        if r["status"] == "ok" and st not in ok and np.all(np.isfinite(r["w"])) and r["w"].shape == wr.shape:
            F = RC.objective(prob, r["w"])
            if not np.isfinite(F) or F - Fr > 1e-6 * (1 + abs(Fr)):
                out.append(("representation_fails_to_converge", f"{st} vs {ref_st}", dict(objective_excess=float(F - Fr), stop=r["stop_crit"]), "converges like the others"))
        elif r["status"] == "ok" and st not in ok and not np.all(np.isfinite(r["w"])):
            out.append(("representation_fails_to_converge", f"{st} vs {ref_st}", "non-finite coefficients", "converges like the others"))
    for st, r in ok.items():
        if st == ref_st:
            continue
        w = r["w"]
        if w.shape != wr.shape:
            out.append(("shape_differs", st, list(w.shape), list(wr.shape)))
            continue
        F = RC.objective(prob, w)
        if convex and comp["solver"]["name"] not in ("FISTA", "PDCD_WS", "LBFGS"):
            for (a, Fa, b, Fb, tag) in ((w, F, wr, Fr, f"{st} vs {ref_st}"), (wr, Fr, w, F, f"{ref_st} vs {st}")):
                nu = RC.violation(prob, a, C.strategy_of(comp["solver"]) if False else "subdiff", "cd")[0]
                if C.strategy_of(comp["solver"]) == "subdiff":
                    # both representations claimed stop_crit <= tol under the subdifferential criterion: "the same solution up to solver
                    # tolerance" - a representation whose true violation is far above what it claimed must not widen the bound
                    nu = min(nu, 10 * tol)
                bound = max(nu, tol) * float(np.sum(np.abs(a - b))) + 1e-9 * (1 + abs(Fb))
                if Fa - Fb > bound:
                    out.append(("objective_differs_between_representations", tag, Fa - Fb, f"<= {bound}"))
        else:
            if abs(F - Fr) > 1e-6 * (1 + abs(Fr)):
                out.append(("objective_differs_between_representations", f"{st} vs {ref_st}", F - Fr, "1e-6 relative"))
    return out


def R_first(pk, ps_list):
    return ps_list[0]


def comps_for(task, tier):
    s, dn, pk = task["solver"], task["datafit"], task["pen"]
    kind = R.KIND[dn]
    # (hadamard: every column sums to zero - the power method of the sparse constants must not depend on its start vector)
    for xid, X in [("tall6x3", A.G_TALL), ("wide-zeromid", A.Z()["wide3x5-zeromid"]), ("sq4x4", A.G_SQ), ("hadamard", A.O()["hadamard4x3"])] + \
            ([("dup", A.K()["dup"])] if tier != "quick" else []):
        ys = [R.targets(kind, X, tier)[0][1]]
        if kind == "multi":                     # a task that stays exactly zero while the others move
            ys.append(np.column_stack([np.zeros(X.shape[0]), ys[0][:, 0]]))
        dspecs = R.datafit_specs(dn, X, "thorough")                 # every group layout, non-contiguous ones included
        for y, dspec in [(y_, d_) for y_ in ys for d_ in dspecs]:
            if pk.startswith("WeightedGroupL2") and (dspec is None or "grp_ptr" not in dspec):
                continue
            Xeff = (X * y[:, None]).T if dn == "QuadraticSVC" else X
            fi_default = R.KNOBS.get(s, {}).get("fit_intercept", (False,))[0]
            ps_list = R.penalty_specs(pk, dspec, Xeff, y, fi_default, tier)
            if dn == "WeightedQuadratic":          # a strength between sum(weights)/n and 1 times the critical one (normalisation slips)
                ps_list = ps_list + R.penalty_specs(pk, dspec, Xeff, y, fi_default, tier, fracs=(0.7,))
            for ps in ps_list:
                kw = dict(c01.HARNESS_DEFAULTS.get(s, {}))
                kw["tol"] = 1e-9 if s not in ("MultiTaskBCD",) else 1e-9
                if s in ("FISTA",):
                    kw["max_iter"] = 3000
                if s == "LBFGS":
                    kw["max_iter"] = 500
                kw = R.fix_kw(s, dn, kw)
                base = dict(solver=dict(name=s, kw=kw), datafit={k: v for k, v in dspec.items() if k != "layout"} if dspec else None,
                            penalty=ps, X=X.tolist(), y=y.tolist(), xid=xid)
                yield base
                K = R.KNOBS.get(s, {})
                if "fit_intercept" in K and xid == "tall6x3" and ps is R_first(pk, ps_list) and dspec is dspecs[0] and dn != "QuadraticSVC":
                    # the other value of fit_intercept (the sparse code paths treat the intercept separately)
                    yield dict(base, solver=dict(name=s, kw=dict(kw, fit_intercept=not K["fit_intercept"][0])), xid=xid + "+icpt")
                # the same problem from a warm start that is non-zero on every feature (zero columns included)
                if s not in ("FISTA", "PDCD_WS", "LBFGS") and xid in ("tall6x3", "wide-zeromid") and ps is R_first(pk, ps_list) and dspec is dspecs[0]:
                    fi = bool(kw.get("fit_intercept", fi_default)) and s not in ("GramCD",)
                    T = y.shape[1] if kind == "multi" else 0
                    w0 = np.array([0.5, -1.0, 0.25, 2.0, -0.5][:Xeff.shape[1]] if dn != "QuadraticSVC" else [0.5, 0.1, 0.25, 0.0, 0.3, 0.2][:Xeff.shape[1]])
                    if ps.get("positive") or ps["name"] in ("IndicatorBox", "PositiveConstraint"):
                        w0 = np.abs(w0) * (min(1.0, ps.get("alpha", 1.0)) if ps["name"] == "IndicatorBox" else 1.0)
                    if fi:
                        w0 = np.append(w0, 0.3)
                    if T:
                        w0 = np.column_stack([w0 * (t + 1) for t in range(T)])
                    if R.start_in_range(dn, Xeff, w0 if not T else None, fi):
                        yield dict(base, w_init=w0.tolist(), xid=xid + "+warm")


# --------------------------------------------------------------------------------------------- estimators

EST = ["Lasso", "ElasticNet", "WeightedLasso", "MCPRegression", "GroupLasso", "MultiTaskLasso", "SparseLogisticRegression", "LinearSVC",
       "CoxEstimator", "SqrtLasso"]
CONTAINERS = ["ndarray", "fortran", "list", "csr", "csc", "float32", "csc32"]


def est_spec(name, p):
    kw = dict(tol=1e-9)
    if name in ("Lasso", "MCPRegression", "GroupLasso", "MultiTaskLasso", "WeightedLasso", "ElasticNet"):
        kw.update(alpha=0.05, max_iter=100, max_epochs=2000)
    if name == "ElasticNet":
        kw.update(l1_ratio=0.5)
    if name == "WeightedLasso":
        kw.update(weights=[1.0, 0.0, 2.0, 0.5, 1.0][:p])
    if name == "MCPRegression":
        kw.update(gamma=3.0)
    if name == "GroupLasso":
        kw.update(groups={3: [[2, 0], [1]], 4: [[3, 0], [2, 1]], 5: [[4, 0], [3, 1], [2]]}[p], weights=[1.0, 2.0, 0.5][:2 if p < 5 else 3])
    if name == "SparseLogisticRegression":
        kw.update(alpha=0.02)
    if name == "LinearSVC":
        kw = dict(C=1.0, tol=1e-9, max_iter=100, max_epochs=5000)
    if name == "CoxEstimator":
        kw = dict(alpha=0.05, l1_ratio=0.7, tol=1e-9, max_iter=200)
    if name == "SqrtLasso":
        kw = dict(alpha=0.3, tol=1e-9)
    return dict(name=name, kw=kw)


def exec_est_group(case):
    import warnings
    from mc import estim
    X = np.array(case["X"], dtype=float)
    y = np.array(case["y"], dtype=float)
    spec = case["spec"]
    out, ws = [], {}
    prob = estim.documented_problem(spec, X, y)
    for cont in CONTAINERS:
        try:
            with warnings.catch_warnings():
                warnings.simplefilter("ignore")
                sp_ = spec
                if cont in ("float32", "csc32"):     # a tolerance below single precision cannot be met: compare at 1e-5
                    sp_ = dict(spec, kw=dict(spec["kw"], tol=1e-5))
                est = estim.make(sp_)
                from mc import build
                from mc.core import derive_seed
                build.seed_numba(derive_seed("c10est", spec["name"], case["xid"]))       # F2: same power-method stream for every container
                Xc = estim.container(X, cont)
                yc = y.astype(np.float32) if cont in ("float32", "csc32") else y
                est.fit(Xc, yc if cont != "list" else y.tolist())
            ws[cont] = np.asarray(estim.fitted_w(spec, est), dtype=float)
        except Exception as e:
            msg = str(e)
            if isinstance(e, (AttributeError, ValueError, TypeError)) and (c13.explained(msg) or "sparse" in msg.lower() or "Sparse" in msg
                                                                           or "dtype" in msg or "supported" in msg):
                continue
            out.append(("unexplained_failure_for_representation", cont, f"{type(e).__name__}: {msg[:140]}", "result or explanatory refusal"))
            import re
            out[-1] = (out[-1][0], cont, re.sub(r"(0x|#)[0-9a-fA-F]{5,}", "#ADDR", out[-1][2]), out[-1][3])
    if "ndarray" not in ws:
        return out, None
    wr = ws["ndarray"]
    Fr = RC.objective(prob, wr)
    convex = prob["penalty"]["name"] in RP.CONVEX
    for cont, w in ws.items():
        if cont == "ndarray" or not np.all(np.isfinite(w)):
            continue
        if w.shape != wr.shape:
            out.append(("shape_differs", cont, list(w.shape), list(wr.shape)))
            continue
        f32 = cont in ("float32", "csc32")
        F = RC.objective(prob, w)
        slack = (1e-4 if f32 else 1e-7) * (1 + abs(Fr))
        if abs(F - Fr) > slack:
            out.append(("objective_differs_between_representations", cont, F - Fr, f"<= {slack}"))
        if convex and case.get("strongly_convex") and np.max(np.abs(w - wr)) > (1e-3 if f32 else 1e-6) * (1 + np.max(np.abs(wr))):
            out.append(("coefficients_differ_between_representations", cont, float(np.max(np.abs(w - wr))), "solver tolerance"))
    return out, wr


def run(task, ctx):
    from mc import comp as C
    tier = ctx.tier
    if task["op"] == "estimator":
        name = task["est"]
        for xid, X in (("tall6x3", A.G_TALL), ("sq4x4", A.G_SQ), ("wide3x5", A.G_WIDE)):
            if name == "CoxEstimator":
                y = R.SURV[0][:X.shape[0]]
            elif name == "MultiTaskLasso":
                y = R.targets("multi", X, tier)[0][1]
            elif name in ("SparseLogisticRegression", "LinearSVC"):
                y = R.targets("clf", X, tier)[0][1]
            else:
                y = R.targets("reg", X, tier)[1][1]
            case = dict(spec=est_spec(name, X.shape[1]), X=X.tolist(), y=y.tolist(), xid=xid, strongly_convex=(X.shape[0] > X.shape[1]))
            v, wr = exec_est_group(case)
            ctx.count("estimator_groups")
            ctx.obs(wr, nontrivial=wr is not None and bool(np.any(wr)), n=len(CONTAINERS))
            for kind, cont, got, exp in v:
                ctx.violation(f"estimator:{name}", kind, dict(op="estimator", case=case), dict(container=cont, value=got), exp,
                              where=dict(estimator=name, container=cont))
        ctx.sample(dict(op="estimator", est=name, containers=CONTAINERS))
        return
    n = 0
    for comp in (corr_comps(task, tier) if task["op"] == "corr" else comps_for(task, tier)):
        results = {st: run_storage(comp, st) for st in (STORAGES if task["op"] != "corr" else ("denseF", "csc"))}
        n += 1
        ctx.count("storage_groups")
        if sum(r["status"] == "ok" for r in results.values()) >= 2:
            ctx.count("groups_with_two_representations")
        ctx.obs([r.get("w") for r in results.values()], nontrivial=any(r["status"] == "ok" and np.any(r["w"]) for r in results.values()), n=len(STORAGES))
        for kind, st, got, exp in judge_group(comp, results):
            ctx.violation(f"solver:{task['solver']}", kind, dict(op="solver", comp=comp), dict(storage=st, value=got), exp,
                          where=dict(solver=task["solver"], datafit=task["datafit"], penalty=comp["penalty"]["name"], storage=st.split(" ")[0]))
        if n <= 1:
            ctx.sample(dict(comp={k: comp[k] for k in ("solver", "datafit", "penalty", "xid")}, storages=STORAGES))


def replay(params):
    from mc.core import fhex
    if params["op"] == "estimator":
        v, wr = exec_est_group(params["case"])
        return dict(violated=bool(v), kinds=[x[0] for x in v], detail=fhex([[x[0], x[1], x[2], x[3]] for x in v[:6]]))
    comp = params["comp"]
    results = {st: run_storage(comp, st) for st in (STORAGES if not comp["xid"].endswith("+icpt") or not comp["xid"].startswith("corr") else ("denseF", "csc"))}
    v = judge_group(comp, results)
    return dict(violated=bool(v), kinds=[x[0] for x in v], detail=fhex([[x[0], x[1], x[2], x[3]] for x in v[:6]]),
                outcomes={st: (r["status"], r["exc"] and r["exc"]["type"]) for st, r in results.items()})


def describe(tier, agg):
    rule = ("solver level: every solver x datafit (x penalty class) domain x 3 designs x alphas, each solved under 6 storages (dense F/C, "
            "CSC int32/int64, CSC with unsorted indices, CSC with explicit zeros); estimator level: 10 estimators x 3 designs x 7 "
            "containers (ndarray C/F, list, CSR, CSC, float32 ndarray/CSC); results compared pairwise through the optimality-gap "
            "theorem / objective equality, refusals must be explanatory; distinct = distinct solution groups")
    return rule, {"storage_groups": 100, "groups_with_two_representations": 60, "estimator_groups": 25}
