"""C17 — reported diagnostics describe the run that happened (engine B)."""
import numpy as np

from mc.ref import pen as RP

from mc import alphabet as A
from mc import registry as R
from mc import traj
from mc.drivers import c01, c03

PROPERTY = "C17"
LEVEL = "model_checking"
ASSUMPTIONS = [
    "entry i of the history of a long run is compared with the objective (recomputed from coefficients alone) of the point "
    "returned by the run with outer budget i+1 — the same trajectory by determinism (validated by history prefix equality)",
    "a run 'stopped on its tolerance' when it returned fewer history entries than its outer budget; its stopping value is then "
    "compared with the reference violation of the returned point (same strategy, max with |dF/d intercept|); LBFGS (scipy's "
    "projected gradient, abnormal terminations) and PDCD_WS (primal-dual residuals in its own units) are exempt from this clause",
    "warm starts of exp-based losses are kept inside |X w0 + b| <= 30",
]
SOLVERS = ("AndersonCD", "GroupBCD", "MultiTaskBCD", "GramCD", "ProxNewton", "GroupProxNewton", "FISTA", "LBFGS", "PDCD_WS")
EXTRA = [("FISTA", "Quadratic", "L1", "denseF"), ("FISTA", "Logistic", "L1", "denseF"), ("FISTA", "Quadratic", "L1", "csc"),
         ("FISTA", "Logistic", "L1", "csc"),
         ("FISTA", "QuadraticSVC", "IndicatorBox", "denseF"),
         ("PDCD_WS", "SqrtQuadratic", "L1", "denseF"), ("PDCD_WS", "Pinball", "L1", "denseF")]


def domains(tier):
    D = [d for d in R.domains(tier) if d[0] in SOLVERS] + EXTRA
    if tier == "quick":
        keep, seen = [], set()
        for d in D:
            key = (d[0], d[1], d[3])
            if key in seen:
                continue
            seen.add(key)
            keep.append(d)
        D = keep
    return D


def plan(tier, seed):
    tasks = []
    for (s, d, p, st) in domains(tier):
        for part in range(2):
            tasks.append(dict(op="traj", solver=s, datafit=d, pen=p, storage=st, part=part, nparts=2, weight=4))
    tasks.append(dict(op="estimators", weight=4))
    return tasks


def base_comps(task, tier):
    from mc.comp import fit_intercept_of
    s, dn, pk, st = task["solver"], task["datafit"], task["pen"], task["storage"]
    kind = R.KIND[dn]
    for ix, (xid, X) in enumerate(R.solve_designs(tier)):
        if ix % task["nparts"] != task["part"]:
            continue
        tgs = R.targets(kind, X, tier)[:1 if tier == "quick" else 2]
        if kind == "multi" and xid == "tall6x3":          # a task whose intercept gradient vanishes at the start next to shifted ones
            g = A.reg_targets(X)["generic"]
            tgs = tgs + [("centred+shifted", np.column_stack([g - g.mean(), g + 5.0, g + 2.0]))]
        for tname, y in tgs:
            for dspec in R.datafit_specs(dn, X, tier)[:2]:
                if pk.startswith("WeightedGroupL2") and (dspec is None or "grp_ptr" not in dspec):
                    continue
                p_eff = X.shape[0] if dn == "QuadraticSVC" else X.shape[1]
                Xeff = (X * y[:, None]).T if dn == "QuadraticSVC" else X
                K = R.KNOBS[s]
                fi_default = K.get("fit_intercept", (False,))[0]
                multitask = y.shape[1] if kind == "multi" else 0
                pss = R.penalty_specs(pk, dspec, Xeff, y, fi_default, tier)
                if xid == "tall6x3":                          # a strength above the critical one: the run stops at once on its tolerance
                    pss = pss + R.penalty_specs(pk, dspec, Xeff, y, fi_default, tier, fracs=(3.0,))[:1]
                for ps in pss:
                    variants = [{}, dict(tol=K["tol"][1][1])]
                    if "fit_intercept" in K:
                        variants.append(dict(fit_intercept=K["fit_intercept"][1][0]))
                    if "use_acc" in K:
                        variants.append(dict(use_acc=K["use_acc"][1][0], **({"greedy_cd": False} if s == "GramCD" else {})))
                    if "ws_strategy" in K:
                        variants.append(dict(ws_strategy="fixpoint"))
                    for var in variants:
                        sspec = dict(name=s, kw=R.fix_kw(s, dn, var))
                        W = R.starts(p_eff, fit_intercept_of(sspec), tier, multitask)
                        for w0 in [None] + ([W[0]] if s != "LBFGS" else []):
                            comp = dict(solver=sspec, datafit={k: v for k, v in dspec.items() if k != "layout"} if dspec else None,
                                        penalty=ps, X=X.tolist(), y=y.tolist(), storage=st, xid=xid)
                            if w0 is not None:
                                if not R.start_in_range(dn, X, w0, fit_intercept_of(sspec)):
                                    continue
                                comp["w_init"] = w0.tolist()
                            yield comp


def rel_close(a, b, tol=1e-9):
    return abs(a - b) <= tol * max(1.0, abs(a), abs(b))


def check_column(comp, nodes, ks, e):
    """Diagnostics of every node of the column with inner budget e.  Returns list of (kind, node, observed, expected)."""
    from mc import comp as C
    out = []
    s = comp["solver"]["name"]
    tol = C.tol_of(comp["solver"])
    objs = {}
    for k in ks:
        c, r = nodes[(k, e)]
        if r["status"] != "ok":
            if r["exc"]["type"] in ("UnboundLocalError", "NameError"):
                out.append(("exception_in_bookkeeping", (k, e), r["exc"]["type"] + ": " + r["exc"]["message"][:80], "history"))
            continue
        w, hist, sc = r["w"], r["obj_out"], r["stop_crit"]
        if not np.all(np.isfinite(w)):
            continue
        f = C.objective(c, w)
        if not np.isfinite(f):
            continue
        objs[k] = f
        n = len(hist)
        if n > k and s != "LBFGS":          # scipy's L-BFGS-B performs one iteration even with maxiter=0
            out.append(("history_longer_than_budget", (k, e), n, k))
            continue
        strict = s == "FISTA"
        # (scipy's L-BFGS-B has a third, warned, way to stop: abnormal line-search termination)
        if n < k and s != "LBFGS" and not ((sc < tol) if strict else (sc <= tol)):
            out.append(("history_shorter_without_convergence", (k, e), dict(len=n, stop=sc), f"len == {k} or stop <= {tol}"))
        if n and not np.all(np.isfinite(hist)):
            out.append(("non_finite_history_entry", (k, e), hist.tolist(), "finite"))
        elif n and not rel_close(hist[-1], f):
            out.append(("last_entry_not_objective_of_returned_point", (k, e), float(hist[-1]), f))
        if n < k and k >= 1 and np.isfinite(sc) and s not in ("LBFGS", "PDCD_WS"):
            viol, parts = C.certificate(c, w)
            expected = viol
            slack = 0.0
            if C.strategy_of(c["solver"]) == "fixpoint" and c["penalty"]["name"] not in RP.CONVEX:
                # accuracy of the brute-force reference prox of non-convex penalties: its tie rule accepts w_j as a minimiser when the prox
                # objectives agree to 1e-12, i.e. distances below ~1e-6 sqrt(1 + |F|)
                slack = 1e-5 * (1 + float(np.max(np.abs(w))))
            prob_ = C.problem_of(c)
            # rounding of the incrementally updated model fit on badly scaled designs (same scale rule as C01)
            slack += 1e-10 * (1.0 + float(np.abs(prob_["X"]).sum()) * (1.0 + float(np.abs(prob_["y"]).max())))
            if not (abs(sc - expected) <= 1e-9 * max(1.0, abs(expected)) + 1e-12 + slack):
                out.append(("stop_value_not_violation_of_returned_point", (k, e), sc, expected))
    # entry i of the longest history vs the point returned with budget i+1
    kmax = max((k for k in ks if k in objs), default=None)
    if kmax is not None:
        hist = nodes[(kmax, e)][1]["obj_out"]
        for i in range(len(hist)):
            if (i + 1) in objs and (i + 1) in ks and np.isfinite(hist[i]):
                if traj.prefix_ok(nodes[(i + 1, e)][1], nodes[(kmax, e)][1]) and not rel_close(hist[i], objs[i + 1]):
                    out.append(("entry_not_objective_of_iterate", (kmax, e), dict(index=i, entry=float(hist[i])), objs[i + 1]))
                    break
    return out


def run(task, ctx):
    from mc import comp as C
    if task["op"] == "estimators":
        return run_estimators(task, ctx)
    tier = ctx.tier
    s = task["solver"]
    ks, es = traj.grid(s, tier)
    es = [e for e in es if e in (1, 2, 7, 12, None)] if tier == "quick" else es
    if s in R.INNER and 12 not in es:
        es = es[:-1] + [12, None]
    n = 0
    for comp in base_comps(task, tier):
        nodes, edges = traj.explore(comp, ks, es, c01.HARNESS_DEFAULTS, C.execute)
        n += 1
        ctx.states += len(nodes)
        ctx.transitions += len(edges)
        ctx.count("trajectories")
        stopped = False
        for e in es:
            v = check_column(comp, nodes, ks, e)
            for kind, node, got, exp in v:
                ctx.violation(f"solver:{s}.diagnostics", kind, dict(op="column", comp=comp, ks=ks, e=e), got, exp,
                              where=dict(solver=s, datafit=(comp["datafit"] or {}).get("name"), penalty=comp["penalty"]["name"],
                                         fit_intercept=C.fit_intercept_of(comp["solver"])), rank=n)
            for k in ks:
                r = nodes[(k, e)][1]
                if r["status"] == "ok" and len(r["obj_out"]) < k:
                    stopped = True
        if stopped:
            ctx.count("tolerance_stops")
        hs = [r["obj_out"] for (_, r) in nodes.values() if r["status"] == "ok"]
        ctx.obs(hs, nontrivial=any(len(h) >= 2 for h in hs), n=len(nodes))
        if n <= 2:
            ctx.sample(dict(comp={k: comp[k] for k in ("solver", "datafit", "penalty", "xid", "storage")}, ks=ks, es=es))


# ----------------------------------------------------------------------------------------- estimators: n_iter_

def est_cases(tier):
    for xid, X in R.solve_designs(tier)[:5]:
        y = R.targets("reg", X, tier)[1][1]
        ylab = R.targets("clf", X, tier)[0][1]
        Y = R.targets("multi", X, tier)[0][1]
        p = X.shape[1]
        for mi in (1, 2, 3, 50):
            for tol in (1e-4, 1e-10):
                common = dict(max_iter=mi, tol=tol)
                yield dict(est="Lasso", kw=dict(alpha=0.05, **common), X=X.tolist(), y=y.tolist(), xid=xid)
                yield dict(est="ElasticNet", kw=dict(alpha=0.05, l1_ratio=0.5, **common), X=X.tolist(), y=y.tolist(), xid=xid)
                yield dict(est="MCPRegression", kw=dict(alpha=0.05, gamma=3.0, **common), X=X.tolist(), y=y.tolist(), xid=xid)
                yield dict(est="GroupLasso", kw=dict(groups=1, alpha=0.05, **common), X=X.tolist(), y=y.tolist(), xid=xid)
                yield dict(est="MultiTaskLasso", kw=dict(alpha=0.05, **common), X=X.tolist(), y=Y.tolist(), xid=xid)
                yield dict(est="SparseLogisticRegression", kw=dict(alpha=0.05, **common), X=X.tolist(), y=ylab.tolist(), xid=xid)
                yield dict(est="LinearSVC", kw=dict(C=1.0, **common), X=X.tolist(), y=ylab.tolist(), xid=xid)


def exec_estimator(case):
    import skglm
    X = np.array(case["X"], dtype=float)
    y = np.array(case["y"], dtype=float)
    viol = []

    def fit(**over):
        est = getattr(skglm, case["est"])(**dict(case["kw"], **over))
        est.fit(X, y)
        return est
    try:
        est = fit()
    except Exception as e:
        return dict(status="exc", exc=type(e).__name__ + ": " + str(e)[:100], viol=[], n_iter=None)
    n, mi, tol = est.n_iter_, case["kw"]["max_iter"], case["kw"]["tol"]
    sc = getattr(est, "stop_crit_", getattr(est, "stopping_crit", None))
    if not (0 <= n <= mi):
        viol.append(("n_iter_outside_budget", n, f"in [0, {mi}]"))
    elif n < mi and sc is not None and not sc <= tol:
        viol.append(("n_iter_below_budget_without_convergence", dict(n_iter=n, stop=float(sc)), f"n_iter_ == {mi} or stop <= tol"))
    elif n >= 1:
        # the run really took n iterations: the budget n reproduces it, the budget n-1 does not (or is not converged)
        try:
            same = fit(max_iter=n)
            if not np.array_equal(np.asarray(same.coef_), np.asarray(est.coef_)):
                viol.append(("n_iter_does_not_reproduce_fit", n, "coef_ identical with max_iter = n_iter_"))
        except Exception as e:
            viol.append(("exception", type(e).__name__, None))
    return dict(status="ok", viol=viol, n_iter=int(n))


def run_estimators(task, ctx):
    for case in est_cases(ctx.tier):
        res = exec_estimator(case)
        ctx.states += 1
        ctx.count("estimator_fits")
        ctx.obs(res.get("n_iter"), res.get("exc"), case["est"], nontrivial=res["status"] == "ok")
        for kind, got, exp in res["viol"]:
            ctx.violation(f"estimator:{case['est']}.n_iter_", kind, dict(op="estimator", case=case), got, exp,
                          where=dict(estimator=case["est"]))
    ctx.sample(dict(op="estimators"))


def replay(params):
    from mc import comp as C
    from mc.core import fhex
    if params["op"] == "estimator":
        res = exec_estimator(params["case"])
        return dict(violated=bool(res["viol"]), kinds=[v[0] for v in res["viol"]], n_iter=res.get("n_iter"), status=res["status"])
    comp, ks, e = params["comp"], params["ks"], params["e"]
    nodes, _ = traj.explore(comp, ks, [e], c01.HARNESS_DEFAULTS, C.execute)
    v = check_column(comp, nodes, ks, e)
    return dict(violated=bool(v), kinds=sorted({x[0] for x in v}), detail=fhex([[x[0], str(x[1]), x[2], x[3]] for x in v[:8]]),
                histories=fhex({str(k): (nodes[(k, e)][1]["obj_out"] if nodes[(k, e)][1]["status"] == "ok" else nodes[(k, e)][1]["exc"])
                                for k in ks}))


def describe(tier, agg):
    rule = ("engine B: every solver (9) x its datafits x penalty classes x storage; designs x alphas x {default tol, loose tol, "
            "intercept flipped, acceleration flipped, fixpoint} x {cold, warm}: columns of outer budgets 0..4 (0..6 thorough; FISTA/"
            "LBFGS/GramCD longer) for inner budgets {1,2,7,12,default}; per node: history length vs budget and convergence claim, "
            "finite entries, last entry == recomputed objective of the returned point, stop value == reference violation on "
            "tolerance stops; per column: entry i of the longest run == objective of the point returned with budget i+1; "
            "estimators: n_iter_ within budget, consistent with stop_crit_, and reproducing the fit; distinct = distinct history sets")
    return rule, {"trajectories": 300, "tolerance_stops": 50, "estimator_fits": 100}
