"""C02 — converged convex fits reach the reference optimum; all applicable skglm routes agree (engine P)."""
import itertools
import warnings

import numpy as np

from mc import alphabet as A
from mc import registry as R
from mc.ref import cert as RC

PROPERTY = "C02"
LEVEL = "exploration"
ASSUMPTIONS = [
    "for every family, every applicable skglm route (solver x strategy, and the estimator) and an independent reference "
    "(scikit-learn Lasso / ElasticNet / MultiTaskLasso / LogisticRegression(liblinear) / LinearSVC(hinge), celer GroupLasso, scipy HiGHS "
    "linear programme for quantile regression, scaled-Lasso alternation over scikit-learn Lasso for the square-root Lasso) solve the same documented objective (mc/ref)",
    "oracle = theorems of convexity: (a) the recomputed violation nu of a route that claims convergence is <= tol (C01 solvers and "
    "FISTA), (b) F(w) - F(v) <= "
    "nu * ||w - v||_1 for the reference solution v and every other route's solution, (c) coefficients agree when the problem is "
    "strongly convex; non-smooth datafits (pinball, sqrt at zero residual) are compared through objective values (1e-6 relative)",
]
TOL = 1e-8


def designs(tier):
    out = [("tall6x3", A.G_TALL), ("sq4x4", A.G_SQ), ("wide3x5", A.G_WIDE), ("dup", A.K()["dup"]), ("hadamard", A.O()["hadamard4x3"])]
    if tier != "quick":
        out += [("scaled-tall", A.S()["scaled-tall"]), ("lincomb", A.K()["lincomb"])] + [("T32r%d" % i, X) for i, X in enumerate(R.t32_reps(6))]
    return out


def S(name, **kw):
    return dict(name=name, kw=kw)


def routes(family, fi):
    """(route name, solver spec) — datafit/penalty come from the family."""
    cd = dict(tol=TOL, max_epochs=5000, max_iter=100)
    if family in ("lasso", "lasso+", "enet", "enet+", "wlasso"):
        r = [("AndersonCD-subdiff", S("AndersonCD", fit_intercept=fi, **cd)), ("AndersonCD-fixpoint", S("AndersonCD", fit_intercept=fi, ws_strategy="fixpoint", **cd)),
             ("AndersonCD-p0=1", S("AndersonCD", fit_intercept=fi, p0=1, **cd)),
             ("ProxNewton-subdiff", S("ProxNewton", fit_intercept=fi, tol=TOL, max_iter=100)), ("ProxNewton-fixpoint", S("ProxNewton", fit_intercept=fi, tol=TOL, max_iter=100, ws_strategy="fixpoint"))]
        if not fi:
            r += [("GramCD-greedy", S("GramCD", tol=TOL, max_iter=5000)), ("GramCD-cyclic", S("GramCD", tol=TOL, max_iter=5000, greedy_cd=False)),
                  ("GramCD-cyclic-acc", S("GramCD", tol=TOL, max_iter=5000, greedy_cd=False, use_acc=True)),
                  ("FISTA", S("FISTA", tol=TOL, max_iter=20000))]
        return r
    if family == "logreg":
        r = [("AndersonCD-subdiff", S("AndersonCD", fit_intercept=fi, **cd)), ("AndersonCD-fixpoint", S("AndersonCD", fit_intercept=fi, ws_strategy="fixpoint", **cd)),
             ("ProxNewton-subdiff", S("ProxNewton", fit_intercept=fi, tol=TOL, max_iter=100)), ("ProxNewton-fixpoint", S("ProxNewton", fit_intercept=fi, tol=TOL, max_iter=100, ws_strategy="fixpoint"))]
        if not fi:
            r += [("FISTA", S("FISTA", tol=TOL, max_iter=50000))]
        return r
    if family == "svc":
        return [("AndersonCD-subdiff", S("AndersonCD", fit_intercept=False, **cd)), ("AndersonCD-fixpoint", S("AndersonCD", fit_intercept=False, ws_strategy="fixpoint", **cd)),
                ("FISTA", S("FISTA", tol=TOL, max_iter=50000))]
    if family == "multitask":
        return [("MultiTaskBCD-subdiff", S("MultiTaskBCD", fit_intercept=fi, **cd)), ("MultiTaskBCD-fixpoint", S("MultiTaskBCD", fit_intercept=fi, ws_strategy="fixpoint", **cd)),
                ("MultiTaskBCD-noacc", S("MultiTaskBCD", fit_intercept=fi, use_acc=False, **cd))]
    if family in ("group", "group+"):
        return [("GroupBCD-subdiff", S("GroupBCD", fit_intercept=fi, tol=TOL, max_iter=500)), ("GroupBCD-fixpoint", S("GroupBCD", fit_intercept=fi, tol=TOL, max_iter=500, ws_strategy="fixpoint")),
                ("GroupBCD-p0=1", S("GroupBCD", fit_intercept=fi, tol=TOL, max_iter=500, p0=1))]
    if family == "quantile":
        return [("PDCD_WS", S("PDCD_WS", tol=1e-9, max_iter=2000, max_epochs=2000))]
    if family == "sqrt":
        return [("ProxNewton", S("ProxNewton", fit_intercept=False, tol=TOL, max_iter=200)), ("PDCD_WS", S("PDCD_WS", tol=1e-9, max_iter=2000, max_epochs=2000))]
    raise KeyError(family)


FAMILIES = ["lasso", "lasso+", "enet", "enet+", "wlasso", "logreg", "svc", "multitask", "group", "group+", "quantile", "sqrt"]


def plan(tier, seed):
    return [dict(op="family", family=f, fit_intercept=fi, weight=4) for f in FAMILIES for fi in ((False, True) if f not in ("svc", "quantile", "sqrt") else (False,))]


def problem_spec(family, X, y, frac, fi, variant=0):
    """(datafit spec, penalty spec) with alpha a fraction of the reference critical value."""
    n, p = X.shape
    def a0(dspec, Xe=X):
        v = RC.alpha_crit(dict(datafit=dspec, X=Xe, y=y, fit_intercept=fi))
        return v if np.isfinite(v) and v > 1e-8 else 1.0
    if family in ("lasso", "lasso+"):
        d = dict(name="Quadratic")
        return d, dict(name="L1", alpha=frac * a0(d), positive=family.endswith("+"))
    if family in ("enet", "enet+"):
        d = dict(name="Quadratic")
        r = (0.5, 0.1)[variant]
        return d, dict(name="L1_plus_L2", alpha=frac * a0(d) / r, l1_ratio=r, positive=family.endswith("+"))
    if family == "wlasso":
        d = dict(name="Quadratic")
        return d, dict(name="WeightedL1", alpha=frac * a0(d), weights=([1.0, 2.0, 0.5, 3.0, 1.0], [1.0, 0.0, 2.0, 0.5, 1.0])[variant][:p], positive=False)
    if family == "logreg":
        d = dict(name="Logistic")
        return d, dict(name="L1", alpha=frac * a0(d), positive=False)
    if family == "svc":
        return dict(name="QuadraticSVC"), dict(name="IndicatorBox", alpha=(1.0, 0.1)[variant])
    if family == "multitask":
        d = dict(name="QuadraticMultiTask")
        return d, dict(name="L2_1", alpha=frac * a0(d))
    if family in ("group", "group+"):
        lay = list(A.GROUP_LAYOUTS[p].values())[(1 + variant) % len(A.GROUP_LAYOUTS[p]) if family == "group" else (0, len(A.GROUP_LAYOUTS[p]) - 1)[variant]]
        d = dict(name="QuadraticGroup", grp_ptr=lay[0], grp_indices=lay[1])
        G = len(lay[0]) - 1
        return d, dict(name="WeightedGroupL2", alpha=frac * a0(dict(name="Quadratic")), weights=[1.0, 2.0, 0.5, 1.0, 1.5][:G], grp_ptr=lay[0], grp_indices=lay[1], positive=family.endswith("+"))
    if family == "quantile":
        d = dict(name="Pinball", quantile_level=(0.3, 0.7)[variant])
        return d, dict(name="L1", alpha=frac * 0.5 * float(np.max(np.abs(X.T @ np.ones(n)))), positive=False)
    if family == "sqrt":
        d = dict(name="SqrtQuadratic")
        return d, dict(name="L1", alpha=frac * float(np.max(np.abs(X.T @ y)) / np.linalg.norm(y)), positive=False)
    raise KeyError(family)


def reference(family, prob):
    """Independent solution of the documented problem (same layout as the solvers' w), or None."""
    X, y, fi, ps, ds = prob["X"], prob["y"], prob["fit_intercept"], prob["penalty"], prob["datafit"]
    n, p = X.shape
    with warnings.catch_warnings():
        warnings.simplefilter("ignore")
        try:
            if family in ("lasso", "lasso+", "enet", "enet+"):
                from sklearn.linear_model import ElasticNet
                r = ps.get("l1_ratio", 1.0)
                m = ElasticNet(alpha=ps["alpha"], l1_ratio=r, fit_intercept=fi, positive=bool(ps.get("positive")), tol=1e-15, max_iter=500000).fit(X, y)
                return np.append(m.coef_, m.intercept_) if fi else m.coef_
            if family == "wlasso":
                from sklearn.linear_model import Lasso
                w = np.asarray(ps["weights"], dtype=float)
                if np.any(w == 0):
                    return None
                m = Lasso(alpha=ps["alpha"], fit_intercept=fi, tol=1e-15, max_iter=500000).fit(X / w, y)
                return np.append(m.coef_ / w, m.intercept_) if fi else m.coef_ / w
            if family == "logreg":
                from sklearn.linear_model import LogisticRegression
                m = LogisticRegression(penalty="l1", C=1.0 / (n * ps["alpha"]), fit_intercept=fi, solver="liblinear", tol=1e-13, max_iter=200000,
                                       intercept_scaling=1e4).fit(X, y)
                return np.append(m.coef_.ravel(), m.intercept_[0]) if fi else m.coef_.ravel()
            if family == "multitask":
                from sklearn.linear_model import MultiTaskLasso
                m = MultiTaskLasso(alpha=ps["alpha"], fit_intercept=fi, tol=1e-15, max_iter=500000).fit(X, y)
                W = m.coef_.T
                return np.vstack([W, m.intercept_[None, :]]) if fi else W
            if family == "group" and not ps.get("positive"):
                from celer import GroupLasso
                groups = [list(ps["grp_indices"][ps["grp_ptr"][g]:ps["grp_ptr"][g + 1]]) for g in range(len(ps["grp_ptr"]) - 1)]
                m = GroupLasso(groups=groups, alpha=ps["alpha"], weights=np.asarray(ps["weights"], dtype=float), fit_intercept=fi, tol=1e-14, max_iter=500,
                               max_epochs=100000).fit(X, y)
                return np.append(m.coef_, m.intercept_) if fi else m.coef_
            if family == "sqrt":
                # scaled-Lasso alternation (Sun & Zhang): the square-root Lasso solution with residual r != 0 is the Lasso solution
                # with strength alpha * ||r|| / sqrt(n); alternate until the residual norm is stationary (jointly convex problem)
                from sklearn.linear_model import Lasso
                w = np.zeros(p)
                sig = np.linalg.norm(y) / np.sqrt(n)
                for _ in range(2000):
                    if sig < 1e-9:
                        return None
                    w = Lasso(alpha=ps["alpha"] * sig, fit_intercept=False, tol=1e-15, max_iter=500000).fit(X, y).coef_
                    new = np.linalg.norm(y - X @ w) / np.sqrt(n)
                    if abs(new - sig) <= 1e-15 * max(1.0, sig):
                        return w
                    sig = new
                return None
            if family == "quantile":
                from scipy.optimize import linprog
                q = ds["quantile_level"]
                c = np.concatenate([np.full(2 * p, ps["alpha"]), np.full(n, q), np.full(n, 1 - q)])
                Aeq = np.hstack([X, -X, np.eye(n), -np.eye(n)])
                r = linprog(c, A_eq=Aeq, b_eq=y, bounds=(0, None), method="highs")
                return r.x[:p] - r.x[p:2 * p] if r.status == 0 else None
        except Exception:
            return None
    return None


def objective(prob, w):
    return RC.objective(prob, w)


def exec_group(params):
    """Solve one problem by every route; returns (violations, {route: w})."""
    from mc import comp as C
    family, fi = params["family"], params["fit_intercept"]
    X = np.array(params["X"], dtype=float)
    y = np.array(params["y"], dtype=float)
    out, sols = [], {}
    nus = {}
    smooth = family not in ("quantile",)
    prob = None
    for rname, sspec in routes(family, fi):
        if sspec["name"] == "GramCD" and params["pspec"]["name"] not in ("L1", "L1_plus_L2", "WeightedL1"):
            continue
        if sspec["name"] == "ProxNewton" and family != "sqrt" and False:
            continue
        comp = dict(solver=sspec, datafit=None if sspec["name"] == "GramCD" else params["dspec"], penalty=params["pspec"], X=params["X"], y=params["y"],
                    storage=params.get("storage", "denseF"))
        if prob is None:
            prob = C.problem_of(dict(comp, datafit=params["dspec"]))
            prob["fit_intercept"] = fi
        res = C.execute(comp)
        if res["status"] != "ok":
            if res["exc"]["message"].startswith("SmallResidual"):
                continue
            out.append(("route_fails", rname, res["exc"]["type"] + ": " + res["exc"]["message"][:100], "solves"))
            continue
        w = res["w"]
        if not np.all(np.isfinite(w)):
            out.append(("route_non_finite", rname, w.tolist(), "finite"))
            continue
        tol = sspec["kw"]["tol"]
        claimed = res["stop_crit"] <= tol if sspec["name"] != "FISTA" else res["stop_crit"] < tol
        if not claimed:
            continue
        sols[rname] = w
        if smooth and not (family == "sqrt" and np.linalg.norm(y - X @ w) <= 1e-8 * (1 + np.linalg.norm(y))):
            strat = "subdiff"
            nu = RC.violation(prob, w, strat, "cd")[0]
            nus[rname] = nu
            c_s = 1.0 if sspec["name"] == "FISTA" else (10.0 * (1 + np.linalg.norm(X, 2)) ** 2 if sspec["name"] == "PDCD_WS" else 1.0)
            scale = 1.0 + float(np.abs(prob["X"]).sum()) * (1.0 + float(np.abs(prob["y"]).max()))
            if sspec["name"] not in ("PDCD_WS",) and not (C.strategy_of(sspec) == "fixpoint") and nu > c_s * tol * (1 + 1e-6) + 1e-10 * scale:
                out.append(("violation_above_margin", rname, dict(nu=nu, stop=res["stop_crit"]), f"<= {c_s} * {tol}"))
            if C.strategy_of(sspec) == "fixpoint" and sspec["name"] in ("AndersonCD", "GroupBCD", "MultiTaskBCD"):
                # the fixed-point residual recomputed with the reference prox (textbook closed forms for these convex penalties)
                fp = RC.violation(prob, w, "fixpoint", "cd")[0]
                if fp > tol * (1 + 1e-6) + 1e-10 * scale:
                    out.append(("fixed_point_residual_above_tolerance", rname, dict(residual=fp, stop=res["stop_crit"]), f"<= {tol}"))
    if prob is None:
        return out, sols
    ref = reference(family, prob)
    exec_group.last_ref = ref is not None
    pts = dict(sols)
    if ref is not None and np.all(np.isfinite(ref)):
        pts["reference"] = np.asarray(ref, dtype=float)
    F = {k: objective(prob, v) for k, v in pts.items()}
    for a in sols:
        for b in pts:
            if a == b or pts[a].shape != pts[b].shape:
                continue
            if a in nus:
                bound = max(nus[a], 0.0) * float(np.sum(np.abs(pts[a] - pts[b]))) + 1e-9 * (1 + abs(F[b]))
            else:
                bound = 1e-6 * (1 + abs(F[b]))
            if F[a] - F[b] > bound:
                out.append(("objective_above_other_solution", f"{a} vs {b}", F[a] - F[b], f"<= {bound}"))
    # strongly convex: same coefficients
    if params.get("strongly_convex") and "reference" in pts:
        for a in sols:
            if pts[a].shape == pts["reference"].shape and np.max(np.abs(pts[a] - pts["reference"])) > 1e-5 * (1 + np.max(np.abs(pts["reference"]))):
                out.append(("coefficients_differ_from_reference", a, float(np.max(np.abs(pts[a] - pts["reference"]))), "<= 1e-5 relative"))
    if family == "svc" and sols:
        from sklearn.svm import LinearSVC
        with warnings.catch_warnings():
            warnings.simplefilter("ignore")
            m = LinearSVC(loss="hinge", C=params["pspec"]["alpha"], fit_intercept=False, tol=1e-10, max_iter=2000000, dual=True).fit(X, y)
        Cc = params["pspec"]["alpha"]

        def P(b):                                            # documented primal: 1/2 ||b||^2 + C sum hinge
            return 0.5 * float(b @ b) + Cc * float(np.maximum(0.0, 1.0 - y * (X @ b)).sum())
        bref = m.coef_.ravel()
        for a, wd in sols.items():
            primal = (X * y[:, None]).T @ wd
            dual_val = float(wd.sum() - 0.5 * primal @ primal)            # weak duality: P* >= dual value of any feasible point
            Pa, Pr = P(primal), P(bref)
            if Pa - Pr > 1e-6 * (1 + abs(Pr)):
                out.append(("primal_worse_than_reference", a, dict(primal=primal.tolist(), objective=Pa), dict(reference=bref.tolist(), objective=Pr)))
            # P is 1-strongly convex: ||b - b*|| <= sqrt(2 (P(b) - P*)); the reference (liblinear) may itself be inexact on badly scaled designs
            allowed = np.sqrt(2 * max(Pa - dual_val, 0.0)) + np.sqrt(2 * max(Pr - dual_val, 0.0)) + 1e-6 * (1 + np.max(np.abs(primal)))
            if np.linalg.norm(primal - bref) > allowed:
                out.append(("primal_differs_from_reference", a, primal.tolist(), bref.tolist()))
    return out, sols


def problems(family, fi, tier):
    fracs = (0.5, 0.1, 0.01) if tier != "quick" else (0.3, 0.03)
    for xid, X in designs(tier):
        n, p = X.shape
        kind = {"logreg": "clf", "svc": "clf", "multitask": "multi"}.get(family, "reg")
        for tname, y in R.targets(kind, X, tier)[:2]:
            for frac in (fracs if family != "svc" else (1.0,)):
                for variant in ((0, 1) if family in ("enet", "enet+", "wlasso", "svc", "group", "group+", "quantile") else (0,)):
                    if family in ("group", "group+") and (p not in A.GROUP_LAYOUTS or len(A.GROUP_LAYOUTS[p]) < 3):
                        continue
                    dspec, pspec = problem_spec(family, X, y, frac, fi, variant)
                    sc = bool(np.linalg.matrix_rank(X) == p and n >= p + (1 if fi else 0)) or family in ("enet", "enet+")
                    yield dict(op="group", family=family, fit_intercept=fi, X=X.tolist(), y=y.tolist(), xid=xid, target=tname, frac=frac,
                               dspec=dspec, pspec=pspec, strongly_convex=sc and family not in ("svc", "quantile", "sqrt", "logreg"))


def run(task, ctx):
    n = 0
    for params in problems(task["family"], task["fit_intercept"], ctx.tier):
        v, sols = exec_group(params)
        n += 1
        ctx.count("problems")
        ctx.count("converged_routes", len(sols))
        if getattr(exec_group, "last_ref", False):
            ctx.count("problems_with_independent_reference")
        supports = {tuple(np.flatnonzero(np.asarray(w).ravel() != 0)) for w in sols.values()}
        ctx.obs([w for w in sols.values()], nontrivial=any(len(s) for s in supports), n=max(1, len(sols)))
        for kind, route, got, exp in v:
            ctx.violation(f"family:{params['family']}", kind, params, dict(route=route, value=got), exp,
                          where=dict(family=params["family"], route=route.split(" ")[0], fit_intercept=params["fit_intercept"]))
        if n <= 1:
            ctx.sample({k: params[k] for k in ("family", "fit_intercept", "xid", "target", "frac", "pspec")})


def replay(params):
    from mc.core import fhex
    v, sols = exec_group(params)
    return dict(violated=bool(v), kinds=[x[0] for x in v], detail=fhex([[x[0], x[1], x[2], x[3]] for x in v[:6]]),
                routes=sorted(sols))


def describe(tier, agg):
    rule = ("12 convex families (positive group Lasso, Lasso, positive Lasso, elastic net (+positive), weighted Lasso incl. a zero weight, L1 logistic, hinge SVC "
            "dual, multi-task Lasso, group Lasso, L1 quantile regression, sqrt-Lasso) x intercept on/off x designs {6x3, 4x4, 3x5 (n<p), "
            "duplicated column, orthogonal} x 2 targets x alpha fractions x mixing / weight / layout variants; every applicable skglm "
            "route (AndersonCD subdiff / fixpoint / p0=1, GramCD greedy / cyclic / cyclic+acc, FISTA, ProxNewton subdiff / fixpoint, GroupBCD, "
            "MultiTaskBCD, PDCD_WS) and the reference implementation; pairwise optimality-gap theorem, violation margins, coefficient "
            "agreement under strong convexity; distinct = distinct solution sets")
    return rule, {"problems": 150, "converged_routes": 500}
