"""C06 — datafits are faithful: documented loss, exact derivatives, dense == sparse (engine P)."""
import itertools

import numpy as np
import scipy.sparse as sp

from mc import alphabet as A
from mc.ref import loss as RL

PROPERTY = "C06"
LEVEL = "exploration"
ASSUMPTIONS = [
    "reference losses are the documented formulas (docstrings, doc/tutorials/cox_datafit.rst: literal O(n^2) Breslow/Efron "
    "sums); their hand-derived derivatives are self-tested against central differences in ./check selftest",
    "intercept_update_step is accepted when it is c * dF/db with 0 < c <= 1/L_b (a descent step that vanishes exactly at "
    "intercept-stationarity), because the statement speaks of a 'step direction'",
    "evaluation points with |Xw| > 30 are skipped for exp-based losses (float64 overflow regime is outside the alphabet), "
    "as are points of zero residual for the square-root loss (not differentiable there)",
]
RTOL = 1e-10


def close(a, b, scale=1.0):
    a = np.asarray(a, dtype=float)
    b = np.asarray(b, dtype=float)
    if a.shape != b.shape:
        return False
    if not (np.all(np.isfinite(a)) and np.all(np.isfinite(b))):
        return bool(np.array_equal(a, b, equal_nan=True))
    return bool(np.all(np.abs(a - b) <= RTOL * max(1.0, scale, float(np.max(np.abs(b))) if b.size else 0.0)))


def specs(tier):
    out = {
        "Quadratic": [dict(name="Quadratic")],
        "WeightedQuadratic": [dict(name="WeightedQuadratic", sample_weights="ones"),
                              dict(name="WeightedQuadratic", sample_weights="ints"),
                              dict(name="WeightedQuadratic", sample_weights="onezero")],
        "Logistic": [dict(name="Logistic")],
        "Huber": [dict(name="Huber", delta=0.5), dict(name="Huber", delta=2.0 ** 20), dict(name="Huber", delta=1.0)],
        "Poisson": [dict(name="Poisson")],
        "Gamma": [dict(name="Gamma")],
        "Cox": [dict(name="Cox", use_efron=False), dict(name="Cox", use_efron=True)],
        "QuadraticSVC": [dict(name="QuadraticSVC")],
        "QuadraticGroup": [dict(name="QuadraticGroup", layout="*")],
        "LogisticGroup": [dict(name="LogisticGroup", layout="*")],
        "QuadraticMultiTask": [dict(name="QuadraticMultiTask")],
        "SqrtQuadratic": [dict(name="SqrtQuadratic")],
        "Pinball": [dict(name="Pinball", quantile_level=q) for q in (0.3, 0.5, 0.7)],
    }
    return out


def sample_weights(kind, n):
    if kind == "ones":
        return [1.0] * n
    if kind == "ints":
        return [1.0, 2.0, 1.0, 3.0, 2.0, 1.0, 4.0, 1.0][:n]
    return ([1.0, 0.0, 2.0, 1.0, 3.0, 1.0, 1.0, 2.0][:n])


def designs(tier):
    out = [("T22-%d" % i, X) for i, X in enumerate(A.T(2, 2))]
    t32 = list(A.T(3, 2)) if tier == "thorough" else list(A.T_orbits(3, 2))
    out += [("T32-%d" % i, X) for i, X in enumerate(t32)]
    for fam in (A.G, A.Z(), A.S(), A.ONE()):
        out += list(fam.items())
    return out


def targets(dspec, X, tier):
    n = X.shape[0]
    name = dspec["name"]
    reg = A.reg_targets(X)
    if name in ("Quadratic", "WeightedQuadratic", "Huber", "QuadraticGroup", "SqrtQuadratic", "Pinball"):
        keys = ["generic", "zero", "shifted"] if tier == "quick" else list(reg)
        return [reg[k] for k in keys]
    if name in ("Logistic", "LogisticGroup", "QuadraticSVC"):
        pats = list(A.sign_patterns(n, skip_constant=False))
        return pats if (len(pats) <= 8 or tier == "thorough") else pats[:: max(1, len(pats) // 8)]
    if name == "Poisson":
        return [np.abs(np.round(reg["generic"])), np.zeros(n), np.arange(n, dtype=float)]
    if name == "Gamma":
        return [np.abs(reg["generic"]) + 0.25, np.full(n, 2.0)]
    if name == "QuadraticMultiTask":
        g = reg["generic"]
        return [np.column_stack([g, reg["generic2"]]), np.column_stack([g, g, reg["shifted"]]), g[:, None].copy()]
    if name == "Cox":
        if n == 4:
            return list(A.survival_targets(4)) if tier == "thorough" else list(A.survival_targets(4))[::5]
        if n <= 3:
            return list(A.survival_targets(n))
        tm = np.array([1., 2., 2., 3., 2., 1., 3., 3.])[:n]
        return [np.column_stack([tm, s]) for s in (np.ones(n), np.array([1., 1., 0., 1., 1., 0., 1., 0.])[:n], np.zeros(n))]
    raise KeyError(name)


def w_vals(p, tier, tasks=None):
    if p <= 2 or tier == "thorough" and p <= 3:
        return list(A.w_points(p))
    base = [np.zeros(p), np.array([0.5, -1.0, 2.0, 0.0, -0.5, 1.0])[:p], np.array([2.0, 0.5, 0.0, -1.0, 1.0, 0.5])[:p],
            np.array([-1.0, 0.0, 0.0, 0.5, 0.0, 2.0])[:p]]
    return base


def plan(tier, seed):
    tasks = [dict(op="datafit", cls=c, weight=2) for c in specs(tier) if c != "Cox"]
    tasks += [dict(op="datafit", cls="Cox", efron=e, part=k, weight=6) for e in (False, True) for k in range(3)]
    tasks += [dict(op="history", cls=c, weight=3) for c in specs(tier)]
    return tasks


# ------------------------------------------------------------------ accessor histories (engine H): accessors are functions of their arguments
#
# One compiled datafit object lives through a history of operations (re-initialisation on another target of the same shape, accessor calls
# at other points); then ONE accessor is probed at a point.  Its result must be bit-identical to the same probe on a fresh object that
# only saw the last initialisation: an accessor that answers from a stale cache does not return the derivative *at that point*.

HIST_SKIP = ("initialize", "initialize_sparse", "get_spec", "params_to_dict")


def hist_problem(dspec0, tier):
    """(dspec, X, [y0, y1], [w0, w1]) : two targets of the same shape, two evaluation points in range."""
    name = dspec0["name"]
    X = A.G_TALL if name != "Cox" else A.G_TALL
    dspec = concrete_specs(dspec0, X)[-1]
    n, p = X.shape
    reg = A.reg_targets(X)
    if name in ("Logistic", "LogisticGroup", "QuadraticSVC"):
        ys = [np.array([1., -1., 1., 1., -1., -1.]), np.array([-1., -1., 1., -1., 1., 1.])]
    elif name == "Poisson":
        ys = [np.abs(np.round(reg["generic"])), np.arange(n, dtype=float)]
    elif name == "Gamma":
        ys = [np.abs(reg["generic"]) + 0.25, np.abs(reg["shifted"]) + 0.5]
    elif name == "QuadraticMultiTask":
        ys = [np.asfortranarray(np.column_stack([reg["generic"], reg["generic2"]])), np.asfortranarray(np.column_stack([reg["shifted"], reg["generic"]]))]
    elif name == "Cox":
        tm = np.array([1., 2., 2., 3., 2., 1.])
        # tied uncensored times first, then a target without any tie (tie-group bookkeeping must be rebuilt)
        ys = [np.column_stack([tm, [1., 1., 0., 1., 1., 0.]]), np.column_stack([[3., 1., 6., 2., 5., 4.], [1., 0., 1., 1., 1., 1.]])]
    else:
        ys = [reg["generic"], reg["shifted"]]
    ws = [np.array([0.5, -1.0, 0.25]), np.array([-0.25, 0.5, 1.0])]
    if name == "QuadraticSVC":
        ws = [np.array([0.5, 0.1, 0.25, 0.0, 0.3, 0.2]), np.array([0.0, 0.4, 0.1, 0.2, 0.0, 0.6])]
    if name == "QuadraticMultiTask":
        ws = [np.column_stack([w, 2 * w]) for w in ws]
    return dspec, X, ys, ws


def hist_env(dspec, X, y, w):
    """Argument values by parameter name, as the solvers pass them."""
    name = dspec["name"]
    Xe = np.asfortranarray((X * y[:, None]).T) if name == "QuadraticSVC" else np.asfortranarray(X)
    Xs = sp.csc_matrix(Xe)
    Xw = Xe @ w
    if Xw.ndim == 2:
        Xw = np.asfortranarray(Xw)
    p = Xe.shape[1]
    G = len(dspec["grp_ptr"]) - 1 if "grp_ptr" in dspec else 1
    env = dict(X=Xe, y=y, Y=y, w=w, W=w, Xw=Xw.copy(), XW=Xw.copy(), j=p - 1, g=G - 1, X_data=Xs.data, X_indptr=Xs.indptr, X_indices=Xs.indices,
               step=0.5, z=Xw.copy() * 0.5 + 0.25)
    return env, Xe, Xs


def hist_accessors(dspec):
    import inspect
    import skglm.datafits as D
    from skglm.experimental.sqrt_lasso import SqrtQuadratic
    from skglm.experimental.quantile_regression import Pinball
    cls = {"SqrtQuadratic": SqrtQuadratic, "Pinball": Pinball}.get(dspec["name"]) or getattr(D, dspec["name"])
    out = {}
    for nme, fn in inspect.getmembers(cls, predicate=inspect.isfunction):
        if nme.startswith("_") or nme in HIST_SKIP:
            continue
        out[nme] = list(inspect.signature(fn).parameters)[1:]
    return out


def hist_run(dspec, X, ys, ws, history, probe, sparse_init, first=0):
    """Fresh object -> init(y_first) -> history -> probe.  Returns the probe's result (or an exception marker)."""
    from mc import build
    d = build.datafit(dspec)
    acc = hist_accessors(dspec)

    def init(k):
        env, Xe, Xs = hist_env(dspec, X, ys[k], ws[0])
        if sparse_init and hasattr(d, "initialize_sparse"):
            d.initialize_sparse(Xs.data, Xs.indptr, Xs.indices, env["y"])
        elif hasattr(d, "initialize"):
            d.initialize(Xe, env["y"])

    def call(nme, k, cur):
        env, _, _ = hist_env(dspec, X, ys[cur], ws[k])
        try:
            args = [env[a] for a in acc[nme]]
        except KeyError:
            return "skipped"
        try:
            build.seed_numba(12345)              # the power method draws its start from numba's RNG: owned by the harness
            r = getattr(d, nme)(*args)
        except Exception as e:
            return "exc:" + type(e).__name__
        return np.array(r, dtype=float).copy() if r is not None else None
    cur = first
    init(first)
    for op in history:
        if op[0] == "init":
            cur = op[1]
            init(cur)
        else:
            call(op[1], op[2], cur)
    return call(probe[0], probe[1], cur), cur


def same_result(a, b):
    if isinstance(a, str) or isinstance(b, str) or a is None or b is None:
        return (a is None and b is None) or (isinstance(a, str) and isinstance(b, str) and a == b)
    return a.shape == b.shape and bool(np.array_equal(a, b, equal_nan=True))


def run_history(task, ctx):
    tier = ctx.tier
    cls = task["cls"]
    for dspec0 in specs(tier)[cls][:2]:
        dspec, X, ys, ws = hist_problem(dspec0, tier)
        acc = hist_accessors(dspec)
        names = sorted(acc)
        ops = [("init", 1), ("init", 0)] + [("call", nme, k) for nme in names for k in (0, 1)]
        depth = 1 if tier == "quick" else 2
        hists = [()]
        for dd in range(depth):
            hists += [h + (o,) for h in hists if len(h) == dd for o in ops]
        for sparse_init in (False, True):
            fresh = {}
            for h in hists:
                last = 0
                for o in h:
                    if o[0] == "init":
                        last = o[1]
                for nme in names:
                    for k in (0, 1):
                        if h and h[-1] == ("call", nme, k):
                            continue                      # the probe would just repeat the last call
                        key = (last, nme, k)
                        if key not in fresh:
                            fresh[key] = hist_run(dspec, X, ys, ws, (), (nme, k), sparse_init, first=last)[0]
                        if isinstance(fresh[key], str) and fresh[key] == "skipped":
                            continue
                        got, _ = hist_run(dspec, X, ys, ws, h, (nme, k), sparse_init)
                        ctx.count("history_probes")
                        ctx.transitions = getattr(ctx, "transitions", 0)
                        ctx.obs(got if not isinstance(got, str) else None, nontrivial=not isinstance(got, str) and got is not None and bool(np.any(got)))
                        if not same_result(got, fresh[key]):
                            params = dict(op="history", dspec=dspec, cls=cls, history=[list(o) for o in h], probe=[nme, k], sparse_init=sparse_init)
                            ctx.violation(f"datafit:{dspec['name']}.{nme}", "result_depends_on_earlier_calls", params,
                                          got if isinstance(got, str) else (None if got is None else np.asarray(got).tolist()),
                                          fresh[key] if isinstance(fresh[key], str) else (None if fresh[key] is None else np.asarray(fresh[key]).tolist()),
                                          where=dict(datafit=dspec["name"], accessor=nme, after=(h[-1][0] if h else "nothing")))
        ctx.sample(dict(op="history", dspec=dspec, accessors=names, histories=len(hists)))


def cox_designs(tier, part):
    """Cox depends on X only through Xw: few designs, every tie/censoring pattern."""
    t22 = [("T22-%d" % i, X) for i, X in enumerate(A.T(2, 2))]
    t32 = [("T32-%d" % i, X) for i, X in enumerate(A.T_orbits(3, 2))]
    t32 = t32 if tier == "thorough" else t32[1::9]
    if part == 0:
        return t22 + t32 + [("tall6x3", A.G_TALL)] + list(A.Z().items())[:3]
    X4 = [("sq4x4", A.G_SQ), ("1feat", A.ONE()["1feat"])]
    return X4[part - 1: part]


def layouts_for(p):
    return A.GROUP_LAYOUTS.get(p, {"one": ([0, p], list(range(p)))})


def concrete_specs(dspec, X):
    n, p = X.shape
    if dspec["name"] == "WeightedQuadratic":
        return [dict(dspec, sample_weights=sample_weights(dspec["sample_weights"], n))]
    if dspec.get("layout") == "*":
        return [dict(name=dspec["name"], grp_ptr=ptr, grp_indices=ind) for ptr, ind in layouts_for(p).values()]
    return [dspec]


def eval_point(d, ds_, dspec, X, Xs, y, w):
    """Compare every accessor of compiled datafit d (initialised dense) / ds_ (initialised sparse) with the reference.
    Returns (failures, observation) ; failures = list of (accessor, kind, observed, expected)."""
    name = dspec["name"]
    fails = []
    obs = []
    multitask = name == "QuadraticMultiTask"
    u = X @ w
    rspec = dspec
    if name == "QuadraticSVC":
        val_ref = RL.value(rspec, y, u, w)
        g_u = None
        grad_w = X.T @ u - 1.0
    elif name == "Pinball":
        val_ref = RL.value(rspec, y, u)
        g_u = None
        grad_w = None
    else:
        val_ref = RL.value(rspec, y, u)
        g_u = RL.grad(rspec, y, u) if not (name == "SqrtQuadratic" and np.linalg.norm(y - u) < 1e-2 * np.linalg.norm(y)) else None
        grad_w = X.T @ g_u if g_u is not None else None
    scale = float(np.abs(X).sum() * (1 + (np.abs(g_u).max() if g_u is not None else 1.0)))

    def chk(acc, got, exp, sc=scale):
        obs.append(np.asarray(got, dtype=float))
        if not close(got, exp, sc):
            fails.append((acc, "mismatch", got, exp))

    def call(acc, fn, *a):
        try:
            return fn(*a)
        except Exception as e:
            fails.append((acc, "exception", type(e).__name__ + ": " + str(e)[:80], None))
            return None

    v = call("value", d.value, y, w, u)
    if v is not None:
        chk("value", v, val_ref, abs(val_ref))
    if hasattr(d, "raw_grad") and g_u is not None:
        r = call("raw_grad", d.raw_grad, y, u)
        if r is not None:
            chk("raw_grad", r, g_u)
    if hasattr(d, "raw_hessian") and name not in ("Cox", "SqrtQuadratic") and g_u is not None:
        r = call("raw_hessian", d.raw_hessian, y, u)
        if r is not None:
            chk("raw_hessian", r, np.diag(RL.hess(rspec, y, u)))
    p = X.shape[1]
    sparse_args = (Xs.data, Xs.indptr, Xs.indices)
    if grad_w is not None:
        if hasattr(d, "gradient_scalar"):
            for j in range(p):
                r = call("gradient_scalar", d.gradient_scalar, X, y, w, u, j)
                if r is not None:
                    chk("gradient_scalar", r, grad_w[j])
        if hasattr(d, "gradient") and not multitask:
            r = call("gradient", d.gradient, X, y, u)
            if r is not None:
                chk("gradient", r, grad_w)
        if ds_ is not None:
            if hasattr(ds_, "gradient_scalar_sparse"):
                for j in range(p):
                    if name in ("QuadraticGroup",):
                        r = call("gradient_scalar_sparse", ds_.gradient_scalar_sparse, *sparse_args, y, w, u, j)
                    else:
                        r = call("gradient_scalar_sparse", ds_.gradient_scalar_sparse, *sparse_args, y, u, j)
                    if r is not None:
                        chk("gradient_scalar_sparse", r, grad_w[j])
            if hasattr(ds_, "full_grad_sparse"):
                r = call("full_grad_sparse", ds_.full_grad_sparse, *sparse_args, y, u)
                if r is not None:
                    chk("full_grad_sparse", r, grad_w)
            if hasattr(ds_, "gradient_sparse"):
                r = call("gradient_sparse", ds_.gradient_sparse, *sparse_args, y, u)
                if r is not None:
                    chk("gradient_sparse", r, grad_w)
        if "grp_ptr" in dspec:
            ptr, ind = dspec["grp_ptr"], dspec["grp_indices"]
            for g in range(len(ptr) - 1):
                idx = ind[ptr[g]:ptr[g + 1]]
                r = call("gradient_g", d.gradient_g, X, y, w, u, g)
                if r is not None:
                    chk("gradient_g", r, grad_w[idx])
                if ds_ is not None and hasattr(ds_, "gradient_g_sparse"):
                    r = call("gradient_g_sparse", ds_.gradient_g_sparse, *sparse_args, y, w, u, g)
                    if r is not None:
                        chk("gradient_g_sparse", r, grad_w[idx])
        if multitask:
            for j in range(p):
                r = call("gradient_j", d.gradient_j, X, y, w, u, j)
                if r is not None:
                    chk("gradient_j", r, grad_w[j])
                if ds_ is not None:
                    r = call("gradient_j_sparse", ds_.gradient_j_sparse, *sparse_args, y, u, j)
                    if r is not None:
                        chk("gradient_j_sparse", r, grad_w[j])
    if hasattr(d, "intercept_update_step") and g_u is not None:
        r = call("intercept_update_step", d.intercept_update_step, y, u)
        if r is not None:
            dFdb = np.sum(g_u, axis=0)
            D = RL.curvature_sup(rspec, y if not multitask else y[:, 0])
            Lb = float(np.sum(D)) if D is not None else None
            r = np.atleast_1d(np.asarray(r, dtype=float))
            dFdb = np.atleast_1d(dFdb)
            obs.append(r)
            for rr, gg in zip(r, dFdb):
                if abs(gg) <= 1e-13:
                    if abs(rr) > 1e-12:
                        fails.append(("intercept_update_step", "nonzero_at_stationarity", rr, 0.0))
                else:
                    c = rr / gg
                    if not (c > 0) or (Lb is not None and c > (1.0 / Lb) * (1 + 1e-9)):
                        fails.append(("intercept_update_step", "not_a_descent_multiple", c, f"in (0, {None if Lb is None else 1 / Lb}]"))
    return fails, obs


def check_init(d, ds_, dspec, X, Xs, y):
    fails = []
    name = dspec["name"]
    exp = {}
    if name == "Quadratic":
        exp["Xty"] = X.T @ y
    if name == "WeightedQuadratic":
        exp["Xtwy"] = X.T @ (np.asarray(dspec["sample_weights"]) * y)
    if name == "QuadraticMultiTask":
        exp["XtY"] = X.T @ y
    for attr, e in exp.items():
        for which, obj in (("initialize", d), ("initialize_sparse", ds_)):
            if obj is None:
                continue
            try:
                got = getattr(obj, attr)
            except Exception as ex:
                fails.append((which, "exception", type(ex).__name__, None))
                continue
            if not close(got, e, float(np.abs(X).sum() * np.abs(y).max())):
                fails.append((which, "mismatch", got, e))
    return fails


def make(dspec, X, Xs, y):
    from mc import build
    fails = []
    d = build.datafit(dspec)
    try:
        if hasattr(d, "initialize"):
            d.initialize(X, y)
    except Exception as e:
        fails.append(("initialize", "exception", type(e).__name__ + ": " + str(e)[:80], None))
    ds_ = build.datafit(dspec)
    try:
        if hasattr(ds_, "initialize_sparse"):
            ds_.initialize_sparse(Xs.data, Xs.indptr, Xs.indices, y)
        elif hasattr(ds_, "initialize"):
            ds_.initialize(X, y)
    except Exception as e:
        fails.append(("initialize_sparse", "exception", type(e).__name__ + ": " + str(e)[:80], None))
        ds_ = None
    return d, ds_, fails


EXP_BASED = ("Logistic", "LogisticGroup", "Poisson", "Gamma", "Cox")


def in_range(dspec, X, y, w):
    """Evaluation points stay inside the range where the documented formula is representable in float64 and
    differentiable: |Xw| <= 30 for exp-based losses (no overflow regime), non-zero residual for the sqrt loss."""
    u = X @ w
    if dspec["name"] in EXP_BASED and np.max(np.abs(u)) > 30:
        return False
    if dspec["name"] == "SqrtQuadratic" and not np.any(y - u):
        return False
    return True


def run(task, ctx):
    if task["op"] == "history":
        return run_history(task, ctx)
    tier = ctx.tier
    cls = task["cls"]
    for dspec0 in specs(tier)[cls]:
        if cls == "Cox" and dspec0["use_efron"] != task["efron"]:
            continue
        for xid, X in (cox_designs(tier, task["part"]) if cls == "Cox" else designs(tier)):
            Xf = np.asfortranarray(X)
            Xs = sp.csc_matrix(X)
            for dspec in concrete_specs(dspec0, X):
                if dspec["name"] == "WeightedQuadratic" and sum(dspec["sample_weights"]) == 0:
                    continue
                for y in targets(dspec, X, tier):
                    y = np.asfortranarray(y) if y.ndim == 2 else y
                    d, ds_, fails = make(dspec, Xf, Xs, y)
                    fails += check_init(d, ds_, dspec, X, Xs, y)
                    ws = w_vals(X.shape[1], tier)
                    if dspec["name"] == "QuadraticMultiTask":
                        ws = [np.column_stack([w * (t + 1) for t in range(y.shape[1])]) for w in ws[:3]]
                    base = dict(op="point", dspec=dspec, xid=xid, X=X.tolist(), y=y.tolist())
                    for kind_acc in fails:
                        acc, kind, got, exp = kind_acc
                        ctx.violation(f"datafit:{dspec['name']}.{acc}", kind, dict(base, w=None), got, exp,
                                      where=dict(datafit=dspec["name"], accessor=acc))
                    for w in ws:
                        if not in_range(dspec, Xf, y, w):
                            ctx.count("skipped_out_of_range")
                            continue
                        f2, obs = eval_point(d, ds_, dspec, Xf, Xs, y, w)
                        ctx.obs(obs, nontrivial=bool(np.any(w)) and bool(np.any(X)))
                        for acc, kind, got, exp in f2:
                            ctx.violation(f"datafit:{dspec['name']}.{acc}", kind, dict(base, w=w.tolist()), got, exp,
                                          where=dict(datafit=dspec["name"], accessor=acc))
                    ctx.count("problems")
                    if dspec["name"] in ("SqrtQuadratic", "Pinball"):
                        prox_checks(ctx, d, dspec, y, base)
                    if dspec["name"] in ("Logistic", "LogisticGroup", "QuadraticSVC") and xid == "tall6x3" and y.ndim == 1:
                        # the same labels passed as an integer array (what users of the solver API hold): same numbers
                        yi = y.astype(np.int64)
                        di, dsi, f3 = make(dspec, Xf, Xs, yi)
                        for w in ws[:3]:
                            if not in_range(dspec, Xf, y, w):
                                continue
                            f2, obs = eval_point(di, dsi, dspec, Xf, Xs, yi, w)
                            ctx.count("integer_label_points")
                            for acc, kind, got, exp in f3 + f2:
                                ctx.violation(f"datafit:{dspec['name']}.{acc}", kind, dict(base, w=w.tolist(), int_labels=True), got, exp,
                                              where=dict(datafit=dspec["name"], accessor=acc, integer_labels=True))
                            f3 = []
        ctx.sample(dict(dspec=dspec0, designs=len(designs(tier))))


def prox_eval(d, dspec, y, w, step):
    """prox / prox_conjugate of the primal-dual datafits: brute-force minimisation and Moreau's identity.
    Returns list of (accessor, kind, observed, expected)."""
    from mc.ref import prox as RXm
    fails = []
    name = dspec["name"]
    u = np.asarray(d.prox(w.copy(), float(step), y), dtype=float)

    def F(v):
        return 0.5 * float(np.sum((v - w) ** 2)) + step * RL.value(dspec, y, v)
    if name == "SqrtQuadratic":
        Fmin = RXm.radial_block_min(dict(name="L2_1", alpha=1.0), w - y, step)
    else:
        q = dspec["quantile_level"]
        Fmin = 0.0
        for wi, yi in zip(w, y):                 # separable: candidates are the kink y_i and the two shifted points
            cands = np.array([yi, wi + step * q, wi - step * (1 - q), wi])
            vals = 0.5 * (cands - wi) ** 2 + step * (q * np.maximum(yi - cands, 0) + (1 - q) * np.maximum(cands - yi, 0))
            Fmin += float(vals.min())
    if not np.all(np.isfinite(u)) or F(u) > Fmin + 1e-9 * max(1.0, abs(Fmin)):
        fails.append(("prox", "not_a_minimiser", dict(prox=u.tolist(), objective=F(u)), dict(objective_at_most=Fmin)))
    pc = np.asarray(d.prox_conjugate(w.copy(), float(step), y), dtype=float)
    moreau = w - step * np.asarray(d.prox(w / step, 1.0 / step, y), dtype=float)
    if not close(pc, moreau, float(np.abs(w).sum())):
        fails.append(("prox_conjugate", "moreau_identity", pc.tolist(), moreau.tolist()))
    return fails, u


def prox_checks(ctx, d, dspec, y, base):
    n = len(y)
    pts = [np.zeros(n), y.copy(), y + 0.25, y - 3.0, np.arange(n, dtype=float) - 1.0, y * 0.5 + (np.arange(n) % 3 - 1.0)]
    for w in pts:
        for step in (0.1, 1.0, 4.0):
            try:
                fails, u = prox_eval(d, dspec, y, w, step)
            except Exception as e:
                fails, u = [("prox", "exception", type(e).__name__ + ": " + str(e)[:80], None)], None
            ctx.obs(u, nontrivial=u is not None and not np.array_equal(u, w))
            ctx.count("prox_points")
            for acc, kind, got, exp in fails:
                ctx.violation(f"datafit:{dspec['name']}.{acc}", kind, dict(base, op="prox", w=w.tolist(), step=step), got, exp,
                              where=dict(datafit=dspec["name"], accessor=acc))


def replay(params):
    from mc.core import fhex
    if params["op"] == "history":
        dspec0 = next(d for d in specs("quick")[params["cls"]] if concrete_specs(d, A.G_TALL)[-1] == params["dspec"])
        dspec, X, ys, ws = hist_problem(dspec0, "quick")
        h = tuple(tuple(o) for o in params["history"])
        last = 0
        for o in h:
            if o[0] == "init":
                last = o[1]
        got, _ = hist_run(dspec, X, ys, ws, h, tuple(params["probe"]), params["sparse_init"])
        ref, _ = hist_run(dspec, X, ys, ws, (), tuple(params["probe"]), params["sparse_init"], first=last)
        return dict(violated=not same_result(got, ref), kinds=["result_depends_on_earlier_calls"] if not same_result(got, ref) else [],
                    got=fhex(None if isinstance(got, str) else got), ref=fhex(None if isinstance(ref, str) else ref))
    if params["op"] == "prox":
        from mc import build
        y = np.array(params["y"], dtype=float)
        d = build.datafit(params["dspec"])
        fails, u = prox_eval(d, params["dspec"], y, np.array(params["w"], dtype=float), params["step"])
        return dict(violated=bool(fails), kinds=sorted({f"{a}:{k}" for a, k, _, _ in fails}), prox=fhex(u))
    X = np.array(params["X"], dtype=float)
    INT = bool(params.get("int_labels"))
    y = np.array(params["y"], dtype=float)
    y = np.asfortranarray(y) if y.ndim == 2 else y
    Xf = np.asfortranarray(X)
    Xs = sp.csc_matrix(X)
    dspec = params["dspec"]
    if INT:
        y = y.astype(np.int64)
    d, ds_, fails = make(dspec, Xf, Xs, y)
    fails += check_init(d, ds_, dspec, X, Xs, y)
    obs = []
    if params.get("w") is not None:
        f2, obs = eval_point(d, ds_, dspec, Xf, Xs, y, np.array(params["w"], dtype=float))
        fails += f2
    return dict(violated=bool(fails), kinds=sorted({f"{a}:{k}" for a, k, _, _ in fails}),
                fails=fhex([[a, k, np.asarray(g).tolist() if not isinstance(g, str) else g,
                             None if e is None else (np.asarray(e).tolist() if not isinstance(e, str) else e)] for a, k, g, e in fails][:10]),
                obs=fhex([np.asarray(o).tolist() for o in obs]))


def describe(tier, agg):
    rule = ("full product per datafit class: hyper (delta, sample weights incl. a zero, Efron/Breslow, group layouts) x designs "
            "{all of T(2,2), T(3,2) (orbit representatives in quick, all 729 in thorough), G, Z (zero column first/mid/last), S, "
            "1-feature, 2-sample} x targets of the right kind (Cox: every (time,status) in {1,2,3}^n x {0,1}^n for n<=3, a "
            "fifth of the 1296 patterns at n=4 in quick / all in thorough) x w grid; every accessor the class offers, dense and "
            "CSC, vs reference loss/gradient/Hessian; prox / prox_conjugate of the primal-dual datafits (sqrt, pinball) vs brute-force "
            "minimisation and Moreau's identity; accessor histories (engine H): one live object per datafit, every history of <= 1 (2 thorough) "
            "operations {re-initialise on another target, any accessor at either of two points} followed by every single-accessor probe, "
            "dense- and sparse-initialised, must answer like a fresh object; distinct = distinct observation vectors at w != 0, X != 0")
    return rule, {"problems": 200}
