"""C13 — every composition is either refused with an explanation or solved (engine P over the full matrix)."""
import itertools
import re

import numpy as np

from mc import alphabet as A
from mc import registry as R

PROPERTY = "C13"
LEVEL = "exploration"
ASSUMPTIONS = [
    "one small well-posed problem per data kind (6x3 design, targets of the datafit's kind; group layouts shared by datafit "
    "and penalty when both are grouped); datafits are initialised on the data before solve(), as the documented examples do",
    "a refusal is 'explained' when it is an AttributeError / ValueError raised by python-level validation whose message names "
    "the missing method, attribute or unsupported structure (patterns listed in EXPLAINED)",
    "quick tier validates every cell of the matrix and runs a covering subset of the accepted cells (every accepted "
    "(solver variant, datafit) and (solver variant, penalty) pair at least once); thorough runs every accepted cell",
]

SOLVER_VARIANTS = [
    ("AndersonCD", dict(ws_strategy="subdiff")), ("AndersonCD", dict(ws_strategy="fixpoint")),
    ("ProxNewton", dict(ws_strategy="subdiff")), ("ProxNewton", dict(ws_strategy="fixpoint")),
    ("GroupBCD", dict(ws_strategy="subdiff")), ("GroupBCD", dict(ws_strategy="fixpoint")),
    ("GroupProxNewton", {}), ("MultiTaskBCD", dict(ws_strategy="subdiff")), ("MultiTaskBCD", dict(ws_strategy="fixpoint")),
    ("GramCD", {}), ("FISTA", dict(opt_strategy="subdiff")), ("FISTA", dict(opt_strategy="fixpoint")), ("LBFGS", {}),
    ("PDCD_WS", {}),
]
DATAFITS = [None, "Quadratic", "WeightedQuadratic", "Logistic", "QuadraticSVC", "Huber", "Poisson", "Gamma", "Cox",
            "QuadraticGroup", "LogisticGroup", "QuadraticMultiTask", "SqrtQuadratic", "Pinball"]
PENALTIES = ["L1", "L1_plus_L2", "WeightedL1", "MCPenalty", "WeightedMCPenalty", "SCAD", "IndicatorBox", "L0_5", "L2_3",
             "LogSumPenalty", "PositiveConstraint", "L2", "L2_1", "L2_05", "BlockMCPenalty", "BlockSCAD", "WeightedGroupL2",
             "WeightedL1GroupL2", "SLOPE"]
STORAGES = ["denseF", "csc"]
INTERCEPTS = [False, True]

EXPLAINED = [r"is not compatible with solver", r"must return one constant per feature", r"must implement", r"Missing", r"must be compatible with", r"supports only",
             r"not yet supported", r"argument `datafit` must be `None`", r"should only take positive values",
             r"SmallResidualException", r"Unsupported value", r"must be `subdiff` or `fixpoint`", r"Unknown error optimality"]

X0 = A.G_TALL
LAYOUT = ([0, 2, 3], [0, 1, 2])


def data_for(dname):
    kind = R.KIND[dname]
    y = R.targets(kind, X0, "quick")[0][1]
    return X0, y


def dspec_for(dname):
    if dname is None:
        return None
    if dname == "WeightedQuadratic":
        return dict(name=dname, sample_weights=[1.0, 2.0, 1.0, 3.0, 2.0, 1.0])
    if dname == "Huber":
        return dict(name=dname, delta=1.0)
    if dname == "Cox":
        return dict(name=dname, use_efron=True)
    if dname == "Pinball":
        return dict(name=dname, quantile_level=0.3)
    if dname in ("QuadraticGroup", "LogisticGroup"):
        return dict(name=dname, grp_ptr=LAYOUT[0], grp_indices=LAYOUT[1])
    return dict(name=dname)


def pspec_for(pname, p, a=0.05):
    w = [1.0, 2.0, 0.5, 1.0, 1.0, 1.0][:p]
    if pname == "L1_plus_L2":
        return dict(name=pname, alpha=a, l1_ratio=0.5, positive=False)
    if pname in ("L1",):
        return dict(name=pname, alpha=a, positive=False)
    if pname == "WeightedL1":
        return dict(name=pname, alpha=a, weights=w, positive=False)
    if pname == "MCPenalty":
        return dict(name=pname, alpha=a, gamma=3.0, positive=False)
    if pname == "WeightedMCPenalty":
        return dict(name=pname, alpha=a, gamma=3.0, weights=w, positive=False)
    if pname in ("SCAD", "BlockMCPenalty", "BlockSCAD"):
        return dict(name=pname, alpha=a, gamma=3.0)
    if pname == "IndicatorBox":
        return dict(name=pname, alpha=1.0)
    if pname == "LogSumPenalty":
        return dict(name=pname, alpha=a, eps=1.0)
    if pname == "PositiveConstraint":
        return dict(name=pname)
    if pname == "WeightedGroupL2":
        return dict(name=pname, alpha=a, weights=[1.0, 2.0], grp_ptr=LAYOUT[0], grp_indices=LAYOUT[1], positive=False)
    if pname == "WeightedL1GroupL2":
        return dict(name=pname, alpha=a, weights_groups=[1.0, 2.0], weights_features=w, grp_ptr=LAYOUT[0], grp_indices=LAYOUT[1])
    if pname == "SLOPE":
        return dict(name=pname, alphas=[a * v for v in (3.0, 2.0, 1.0, 1.0, 1.0, 1.0)[:p]])
    return dict(name=pname, alpha=a)


def cell_comp(cell):
    si, dname, pname, st, fi = cell
    sname, skw = SOLVER_VARIANTS[si]
    X, y = data_for(dname)
    kw = dict(skw)
    if "fit_intercept" in R.KNOBS.get(sname, {}):
        kw["fit_intercept"] = fi
    kw.update({"AndersonCD": dict(max_epochs=1000), "MultiTaskBCD": dict(max_epochs=1000), "GroupBCD": dict(max_iter=200),
               "ProxNewton": dict(max_pn_iter=100), "GroupProxNewton": dict(max_pn_iter=100),
               "PDCD_WS": dict(max_iter=200, max_epochs=200)}.get(sname, {}))
    p = X.shape[0] if dname == "QuadraticSVC" else X.shape[1]
    return dict(solver=dict(name=sname, kw=kw), datafit=dspec_for(dname), penalty=pspec_for(pname, p), X=X.tolist(), y=y.tolist(),
                storage=st, xid="tall6x3")


def all_cells():
    for si, dname, pname, st, fi in itertools.product(range(len(SOLVER_VARIANTS)), DATAFITS, PENALTIES, STORAGES, INTERCEPTS):
        sname = SOLVER_VARIANTS[si][0]
        if fi and "fit_intercept" not in R.KNOBS.get(sname, {}):
            continue                          # the solver has no such knob: one cell, not two
        yield (si, dname, pname, st, fi)


def explained(msg, comp=None):
    if any(re.search(p, msg) for p in EXPLAINED):
        return True
    # a python-level AttributeError naming a method the datafit / penalty class really lacks
    m = re.search(r"'(\w+)' object has no attribute '(\w+)'", msg)
    if m and comp is not None:
        from mc import build
        for obj in (build.datafit_raw(comp["datafit"]), build.penalty_raw(comp["penalty"])):
            if obj is not None and type(obj).__name__ == m.group(1) and not hasattr(obj, m.group(2)):
                return True
    return False


def plan(tier, seed):
    n = 32 if tier == "quick" else 64
    tasks = [dict(op="validate", weight=10)]
    tasks += [dict(op="run", chunk=k, nchunks=n, track=True, weight=5, cpu_limit=120, compile_allowance=600) for k in range(n)]
    # "runs to completion and returns values meeting the certificate": with a generous budget a tiny convex problem must be solved
    # to tolerance whatever the number of unpenalised (zero-weight) features relative to p0, with and without positivity
    tasks += [dict(op="liveness", p0=p0, fit_intercept=fi, weight=2) for p0 in (1, 2) for fi in (False, True)]
    return tasks


# ------------------------------------------------------------------------------------------ worker side

def validate_cell(cell):
    """Outcome of the library's own validation on raw (uncompiled) instances: (accepted, exc type, message)."""
    import scipy.sparse as sp
    from mc import build, comp as C
    comp = cell_comp(cell)
    prob = C.problem_of(comp)
    X = build.storage(prob["X"], comp["storage"])
    try:
        solver = build.solver(comp["solver"])
        solver._validate(X, prob["y"], build.datafit_raw(comp["datafit"]), build.penalty_raw(comp["penalty"]))
        return True, None, None
    except Exception as e:
        return False, type(e).__name__, str(e)


def accepted_cells():
    out = []
    for cell in all_cells():
        ok, et, msg = validate_cell(cell)
        if ok:
            out.append(cell)
    return out


def covering(cells):
    """Greedy subset covering every accepted (solver variant, datafit, storage) and (solver variant, penalty) pair,
    and both intercept settings per solver variant."""
    need = set()
    for c in cells:
        need |= {("sd", c[0], c[1], c[3]), ("sp", c[0], c[2]), ("si", c[0], c[4])}
    chosen = []
    for c in cells:
        gain = {("sd", c[0], c[1], c[3]), ("sp", c[0], c[2]), ("si", c[0], c[4])} & need
        if len(gain) >= 2 or (gain and all(g[0] != "si" for g in gain) and len(gain) >= 1 and ("sd", c[0], c[1], c[3]) in gain):
            chosen.append(c)
            need -= gain
    for c in cells:
        gain = {("sd", c[0], c[1], c[3]), ("sp", c[0], c[2]), ("si", c[0], c[4])} & need
        if gain:
            chosen.append(c)
            need -= gain
    return chosen


def judge_run(cell, res):
    """Outcome of a *run* cell.  Returns list of (kind, observed, expected)."""
    from mc import comp as C
    comp = cell_comp(cell)
    if res["status"] == "exc":
        e = res["exc"]
        if e["type"] in ("AttributeError", "ValueError") and not e["module"].startswith("numba") and explained(e["message"], comp):
            return []
        return [("fails_inside_solve", f"{e['type']}: {e['message'][:160]} @ {e['frame']}", "explained refusal or solution")]
    out = []
    w, sc, hist = res["w"], res["stop_crit"], res["obj_out"]
    if not np.all(np.isfinite(w)) or not np.all(np.isfinite(hist)) or not (np.isfinite(sc)):
        out.append(("non_finite_output", dict(w=w.tolist(), stop=sc, hist=hist.tolist()[-3:]), "finite"))
        return out
    sname = comp["solver"]["name"]
    if sname in ("FISTA", "PDCD_WS"):
        return out            # their stopping value is not the C01 certificate (see C02)
    if sc <= C.tol_of(comp["solver"]):
        try:
            viol, parts = C.certificate(comp, w)
        except KeyError:
            return out
        tol = C.tol_of(comp["solver"])
        if viol > tol * (1 + 1e-6) + 1e-9:
            out.append(("certificate_invalid", dict(stop=sc, recomputed=viol), f"<= {tol}"))
    return out


def run(task, ctx):
    from mc import comp as C
    tier = ctx.tier
    if task["op"] == "validate":
        n_acc = 0
        for cell in all_cells():
            ok, et, msg = validate_cell(cell)
            ctx.obs(ok, et, msg, nontrivial=True)
            ctx.count("cells_validated")
            if ok:
                n_acc += 1
                ctx.count("cells_accepted")
            else:
                if et not in ("AttributeError", "ValueError") or not explained(msg or ""):
                    ctx.violation(f"validation:{SOLVER_VARIANTS[cell[0]][0]}", "unexplained_refusal", dict(op="validate", cell=list(cell)),
                                  f"{et}: {(msg or '')[:200]}", "AttributeError/ValueError naming what is lacking",
                                  where=dict(solver=SOLVER_VARIANTS[cell[0]][0], exc=et))
        ctx.sample(dict(op="validate", accepted=n_acc))
        return
    if task["op"] == "liveness":
        from mc.drivers import c01
        for comp in c01.ws_live_comps(task):
            v, res = exec_live(comp)
            ctx.count("liveness_cells")
            ctx.obs(res.get("w"), nontrivial=res["status"] == "ok" and bool(np.any(res["w"])))
            for kind, got, exp in v:
                ctx.violation("solver:AndersonCD.working_set", kind, dict(op="live", comp=comp), got, exp,
                              where=dict(solver="AndersonCD", p0=task["p0"], positive=comp["penalty"]["positive"]))
        if task["p0"] == 1:
            # larger working-set dynamics: AR(0.95) 20x40 designs whose first ten columns are rescaled by 5, default p0 and budgets,
            # tol 1e-8, both scoring strategies: must converge (the inner stopping test must use the constants of the working set)
            from mc.drivers import c03
            for seed in range(12 if ctx.tier == "quick" else 20):
                X, y = c03.ar_design(seed, 20, 40, 0.95)
                X = X.copy()
                X[:, :10] *= 5.0
                amax = float(np.max(np.abs(X.T @ y))) / 20
                for fr in (0.05, 0.01):
                    strat = "fixpoint" if task["fit_intercept"] else "subdiff"
                    comp = dict(solver=dict(name="AndersonCD", kw=dict(tol=1e-8, ws_strategy=strat, fit_intercept=False)), datafit=dict(name="Quadratic"),
                                penalty=dict(name="L1", alpha=fr * amax, positive=False), X=X.tolist(), y=y.tolist(), storage="denseF",
                                xid=f"ar20x40s{seed}-rescaled", live=True)
                    v, res = exec_live(comp)
                    ctx.count("liveness_cells")
                    ctx.obs(res.get("w"), nontrivial=res["status"] == "ok" and bool(np.any(res["w"])))
                    for kind, got, exp in v:
                        ctx.violation("solver:AndersonCD.working_set", kind, dict(op="live", comp=comp), got, exp,
                                      where=dict(solver="AndersonCD", p0=10, positive=False, family="ar-rescaled"))
        ctx.sample(dict(op="liveness", p0=task["p0"], fit_intercept=task["fit_intercept"]))
        return
    cells = accepted_cells()
    if tier == "quick":
        cells = covering(cells)
    mine = [c for i, c in enumerate(sorted(cells, key=lambda c: (c[0], str(c[1]), c[2], c[3], c[4]))) if i % task["nchunks"] == task["chunk"]]
    for idx, cell in enumerate(mine):
        if idx < task.get("start", 0):
            continue
        ctx.checkpoint(idx)
        comp = cell_comp(cell)
        res = C.execute(comp)
        ctx.count("cells_run")
        ctx.obs(res["status"], res.get("exc") and res["exc"]["type"], res.get("w"), nontrivial=res["status"] == "ok")
        if res["status"] == "ok":
            ctx.count("cells_solved")
        for kind, got, exp in judge_run(cell, res):
            ctx.violation(site_of(cell), kind, dict(op="run", cell=list(cell)), got, exp, where=where_of(cell, res))
        if idx == 0:
            ctx.sample(dict(op="run", cell=list(cell), comp={k: comp[k] for k in ("solver", "datafit", "penalty", "storage")}))


def exec_live(comp):
    from mc import comp as C
    res = C.execute(comp)
    v = []
    if res["status"] != "ok":
        v.append(("fails_inside_solve", res["exc"]["type"] + ": " + res["exc"]["message"][:120], "a solution"))
    elif not np.all(np.isfinite(res["w"])):
        v.append(("non_finite_output", res["w"].tolist(), "finite"))
    elif not res["stop_crit"] <= 1e-8:
        v.append(("does_not_converge_within_generous_budget", dict(stop_crit=res["stop_crit"], w=res["w"].tolist()),
                  "stop_crit <= 1e-8 within the budget (max_iter 60 / default 50)"))
    else:
        viol = C.certificate(comp, res["w"])[0]
        if viol > 1e-8 * (1 + 1e-6) + 1e-10 * 100:
            v.append(("certificate_invalid", dict(stop_crit=res["stop_crit"], recomputed=viol), "<= 1e-8"))
    return v, res


def site_of(cell):
    return f"cell:{SOLVER_VARIANTS[cell[0]][0]}|{cell[1]}|{cell[2]}"


def where_of(cell, res=None):
    w = dict(solver=SOLVER_VARIANTS[cell[0]][0], datafit=cell[1], penalty=cell[2], storage=cell[3], fit_intercept=cell[4])
    if res is not None and res.get("exc"):
        w["exc"] = res["exc"]["type"]
    return w


def on_abort(task, idx, status, detail, ctx):
    """The worker died / exceeded its CPU horizon while running cell idx of this chunk."""
    tier = ctx.tier
    cells = accepted_cells()
    if tier == "quick":
        cells = covering(cells)
    mine = [c for i, c in enumerate(sorted(cells, key=lambda c: (c[0], str(c[1]), c[2], c[3], c[4]))) if i % task["nchunks"] == task["chunk"]]
    cell = mine[idx]
    ctx.count("cells_run")
    ctx.obs(status, nontrivial=False)
    kind = "terminates_interpreter" if status == "died" else "does_not_terminate"
    ctx.violation(site_of(cell), kind, dict(op="run", cell=list(cell)), f"{status}: {detail}", "explained refusal or solution",
                  where=where_of(cell))


def replay(params):
    from mc import comp as C
    if params["op"] == "live":
        v, res = exec_live(params["comp"])
        return dict(violated=bool(v), kinds=[x[0] for x in v], **C.pack(res))
    cell = tuple(params["cell"])
    if params["op"] == "validate":
        ok, et, msg = validate_cell(cell)
        bad = (not ok) and (et not in ("AttributeError", "ValueError") or not explained(msg or ""))
        return dict(violated=bad, kinds=["unexplained_refusal"] if bad else [], accepted=ok, exc=et, message=msg)
    ok, et, msg = validate_cell(cell)
    res = C.execute(cell_comp(cell))
    v = judge_run(cell, res)
    return dict(violated=bool(v), kinds=[x[0] for x in v], validation=dict(accepted=ok, exc=et, message=msg), **C.pack(res))


def describe(tier, agg):
    n = agg["counters"].get("cells_validated", 0)
    rule = (f"full matrix 14 solver variants (9 solvers x strategy) x 14 datafits (incl. None) x 19 penalties x {{dense, CSC}} x "
            f"{{fit_intercept}} = {n} cells, all submitted to the library's validation; accepted cells are run by solve() on a 6x3 "
            "problem of the datafit's kind, each in its own checkpointed step so that a dying or non-terminating worker is attributed "
            "to its cell (quick: covering subset; thorough: all accepted cells); outcome must be an explained AttributeError/"
            "ValueError or a finite solution passing the certificate; plus a liveness column: the 6x5 working-set problem with every "
            "zero-weight pattern x p0 in {1,2} x both strategies x positivity on/off must be solved to 1e-8 within max_iter=60; "
            "distinct = distinct outcomes")
    return rule, {"cells_validated": 5000, "cells_accepted": 300, "cells_run": 60, "cells_solved": 40}
