"""C15 — solutions transform correctly under symmetries of the problem (engine P)."""
import itertools

import numpy as np

from mc import alphabet as A
from mc import registry as R
from mc.ref import cert as RC

PROPERTY = "C15"
LEVEL = "exploration"
ASSUMPTIONS = [
    "metamorphic oracle on convex problems: w solves P, w' solves the transformed problem T(P); then T(w) and w' must both be "
    "near-optimal for T(P): F'(w') - F'(T(w)) <= viol(w') * ||w' - T(w)||_1 and conversely (optimality-gap theorem), and equal "
    "coefficient-wise when T(P) is strongly convex; fits at tol 1e-10",
    "the *whole* symmetry group is enumerated at small size: all p! feature permutations (p <= 4; 24 of 120 for p = 5) with weights "
    "and group membership carried along, all group orders, all task orders, all n! sample orders for n <= 4 (24 fixed ones otherwise), "
    "replication x2 / x3, scalings 1/4, 3, 2^10 of (y, alpha) and of (feature, weight)",
]

COMPS = [
    ("AndersonCD", dict(), "Quadratic", "WeightedL1"), ("AndersonCD", dict(ws_strategy="fixpoint", p0=2), "Quadratic", "WeightedL1"),
    ("AndersonCD", dict(p0=1), "Logistic", "L1"), ("ProxNewton", dict(p0=2), "Logistic", "WeightedL1"), ("GramCD", dict(greedy_cd=False, use_acc=True), None, "WeightedL1"),
    ("GramCD", dict(), None, "L1"), ("FISTA", dict(), "Quadratic", "L1"),
    ("GroupBCD", dict(p0=1), "QuadraticGroup", "WeightedGroupL2"), ("GroupBCD", dict(ws_strategy="fixpoint"), "QuadraticGroup", "WeightedGroupL2"),
    ("GroupProxNewton", dict(), "LogisticGroup", "WeightedGroupL2"), ("MultiTaskBCD", dict(p0=1), "QuadraticMultiTask", "L2_1"),
    ("AndersonCD", dict(), "Quadratic", "WeightedL1+"), ("AndersonCD", dict(p0=1), "Quadratic", "WeightedL1+"), ("ProxNewton", dict(), "Logistic", "WeightedL1+"),
    ("GroupBCD", dict(ws_strategy="fixpoint"), "QuadraticGroup", "WeightedL1GroupL2"), ("GroupBCD", dict(p0=1), "QuadraticGroup", "WeightedGroupL2+"),
]


def plan(tier, seed):
    return [dict(op="comp", comp=i, storage=st, weight=4) for i in range(len(COMPS)) for st in ("denseF", "csc")
            if not (COMPS[i][0] in ("GroupProxNewton",) and st == "csc")]


def base_problem(i, X, y, fi, tier, frac=0.15):
    sname, skw, dn, pk = COMPS[i]
    p = X.shape[1]
    kw = dict(skw, tol=1e-10)
    if sname in ("AndersonCD", "MultiTaskBCD"):
        kw.update(max_epochs=5000, max_iter=100)
    if sname == "GroupBCD":
        kw.update(max_iter=500)
    if sname == "FISTA":
        kw.update(max_iter=30000)
    if sname == "GramCD":
        kw.update(max_iter=5000)
    if "fit_intercept" in R.KNOBS.get(sname, {}):
        kw["fit_intercept"] = fi
    dspec = None
    if dn in ("QuadraticGroup", "LogisticGroup"):
        lay = {3: ([0, 2, 3], [0, 2, 1]), 4: ([0, 1, 4], [3, 0, 2, 1]), 5: ([0, 2, 3, 5], [4, 0, 2, 1, 3])}[p]
        dspec = dict(name=dn, grp_ptr=lay[0], grp_indices=lay[1])
    elif dn is not None:
        dspec = dict(name=dn)
    a0 = RC.alpha_crit(dict(datafit=dict(name="Logistic") if dn in ("Logistic", "LogisticGroup") else (dict(name="QuadraticMultiTask") if dn == "QuadraticMultiTask" else None),
                            X=X, y=y, fit_intercept=fi and sname not in ("GramCD", "FISTA")))
    a = frac * (a0 if np.isfinite(a0) and a0 > 1e-8 else 1.0)
    if pk == "L1":
        ps = dict(name="L1", alpha=a, positive=False)
    elif pk in ("WeightedL1", "WeightedL1+"):
        ps = dict(name="WeightedL1", alpha=a, weights=[1.0, 2.0, 0.5, 3.0, 0.25][:p], positive=pk.endswith("+"))
    elif pk in ("WeightedGroupL2", "WeightedGroupL2+"):
        G = len(dspec["grp_ptr"]) - 1
        ps = dict(name="WeightedGroupL2", alpha=a, weights=[1.0, 2.0, 0.5][:G], grp_ptr=dspec["grp_ptr"], grp_indices=dspec["grp_indices"], positive=pk.endswith("+"))
    elif pk == "WeightedL1GroupL2":
        G = len(dspec["grp_ptr"]) - 1
        ps = dict(name="WeightedL1GroupL2", alpha=a, weights_groups=[1.0, 2.0, 0.5][:G], weights_features=[1.0, 2.0, 0.5, 3.0, 0.25][:p],
                  grp_ptr=dspec["grp_ptr"], grp_indices=dspec["grp_indices"])
    else:
        ps = dict(name="L2_1", alpha=a)
    return dict(solver=dict(name=sname, kw=kw), datafit=dspec, penalty=ps, X=X.tolist(), y=y.tolist())


def groups_of(spec):
    ptr, ind = spec["grp_ptr"], spec["grp_indices"]
    return [list(ind[ptr[g]:ptr[g + 1]]) for g in range(len(ptr) - 1)]


def set_groups(spec, groups):
    spec = dict(spec)
    ptr, ind = [0], []
    for g in groups:
        ind += list(g)
        ptr.append(len(ind))
    spec["grp_ptr"], spec["grp_indices"] = ptr, ind
    return spec


def transforms(comp, tier):
    """Yields (name, transformed comp, map from a solution of comp to the corresponding point of the transformed problem)."""
    X = np.array(comp["X"], dtype=float)
    y = np.array(comp["y"], dtype=float)
    n, p = X.shape
    ps, ds = comp["penalty"], comp["datafit"]
    fi = bool(comp["solver"]["kw"].get("fit_intercept", False))
    def rows(w, f):
        w = np.asarray(w)
        head, tail = w[:p], w[p:]
        return np.concatenate([f(head), tail]) if w.ndim == 1 else np.vstack([f(head), tail])
    # feature permutations
    perms = list(itertools.permutations(range(p)))
    if p > 4:
        perms = perms[:: len(perms) // 24]
    for pi in perms[1:]:
        pi = list(pi)
        inv = np.argsort(pi)                     # new position of old feature j
        c = dict(comp, X=X[:, pi].tolist())
        p2 = dict(ps)
        if "weights" in ps and ps["name"] != "WeightedGroupL2":
            p2["weights"] = list(np.asarray(ps["weights"])[pi])
        if "weights_features" in ps:
            p2["weights_features"] = list(np.asarray(ps["weights_features"])[pi])
        d2 = ds
        if "grp_ptr" in ps:
            newg = [[int(inv[j]) for j in g] for g in groups_of(ps)]
            p2 = set_groups(p2, newg)
            d2 = set_groups(ds, newg)
        c.update(penalty=p2, datafit=d2)
        yield f"feature_perm{pi}", c, (lambda w, pi=pi: rows(w, lambda h: h[pi]))
    # group orders
    if "grp_ptr" in ps:
        gs = groups_of(ps)
        for go in list(itertools.permutations(range(len(gs))))[1:]:
            wkey = "weights" if "weights" in ps else "weights_groups"
            p2 = set_groups(dict(ps, **{wkey: list(np.asarray(ps[wkey])[list(go)])}), [gs[g] for g in go])
            d2 = set_groups(ds, [gs[g] for g in go])
            yield f"group_order{list(go)}", dict(comp, penalty=p2, datafit=d2), (lambda w: np.asarray(w))
        # order inside a group
        p2 = set_groups(ps, [g[::-1] for g in gs])
        yield "within_group_reversed", dict(comp, penalty=p2, datafit=set_groups(ds, [g[::-1] for g in gs])), (lambda w: np.asarray(w))
    # task orders
    if y.ndim == 2:
        for tau in list(itertools.permutations(range(y.shape[1])))[1:]:
            yield f"task_perm{list(tau)}", dict(comp, y=y[:, list(tau)].tolist()), (lambda w, tau=tau: np.asarray(w)[:, list(tau)])
    # sample permutations
    sps = list(itertools.permutations(range(n)))
    sps = sps[1:] if n <= 4 else sps[1:: max(1, len(sps) // 24)][:24]
    for sg in sps:
        yield f"sample_perm{list(sg)}", dict(comp, X=X[list(sg)].tolist(), y=y[list(sg)].tolist()), (lambda w: np.asarray(w))
    # replication
    for k in (2, 3):
        yield f"replicate_x{k}", dict(comp, X=np.vstack([X] * k).tolist(), y=(np.concatenate([y] * k) if y.ndim == 1 else np.vstack([y] * k)).tolist()), (lambda w: np.asarray(w))
    quad = ds is None or ds["name"] in ("Quadratic", "QuadraticGroup", "QuadraticMultiTask")
    if quad:
        for cfac in (0.25, 3.0, 1024.0):
            yield f"scale_y_alpha_x{cfac}", dict(comp, y=(cfac * y).tolist(), penalty=dict(ps, alpha=cfac * ps["alpha"])), (lambda w, cfac=cfac: cfac * np.asarray(w))
    if ps["name"] == "WeightedL1" and not ps.get("positive") or ps["name"] == "WeightedL1":
        for j in (0, p - 1):
            for cfac in (0.25, 3.0, 1024.0):
                X2 = X.copy()
                X2[:, j] *= cfac
                w2 = list(ps["weights"])
                w2[j] *= cfac
                def mp(w, j=j, cfac=cfac):
                    w = np.array(w, dtype=float)
                    w[j] /= cfac
                    return w
                yield f"scale_feature{j}_x{cfac}", dict(comp, X=X2.tolist(), penalty=dict(ps, weights=w2)), mp


def solve(comp, storage):
    from mc import comp as C
    res = C.execute(dict(comp, storage=storage))
    if res["status"] != "ok":
        return None, res["exc"]["type"] + ": " + res["exc"]["message"][:100]
    tol = comp["solver"]["kw"]["tol"]
    if not np.all(np.isfinite(res["w"])) or not (res["stop_crit"] <= tol if comp["solver"]["name"] != "FISTA" else res["stop_crit"] < tol):
        return None, None
    return res["w"], None


def exec_pair(params):
    """params: base comp, storage, transformation index name.  Returns (violations, observation)."""
    from mc import comp as C, estim
    comp, storage = params["comp"], params["storage"]
    tname = params["transform"]
    tr = next(((n, c, m) for (n, c, m) in transforms(comp, params.get("tier", "quick")) if n == tname), None)
    if tr is None:
        return [("unknown_transform", tname, None)], None
    _, comp2, mp = tr
    w, e1 = solve(comp, storage)
    w2, e2 = solve(comp2, storage)
    out = []
    if e1 or e2:
        if bool(e1) != bool(e2):
            out.append(("outcome_changes_under_symmetry", dict(original=e1, transformed=e2), "same outcome"))
        return out, None
    if w is None or w2 is None:
        return out, None
    Tw = mp(w)
    prob2 = C.problem_of(comp2)
    F2, FT = RC.objective(prob2, w2), RC.objective(prob2, Tw)
    fista = comp["solver"]["name"] == "FISTA"
    subdiff = C.strategy_of(comp["solver"]) == "subdiff" and comp["solver"]["name"] not in ("FISTA", "PDCD_WS", "LBFGS")

    def cap(nu):
        # both fits claimed stop_crit <= 1e-10 under the subdifferential criterion: a fit whose true violation is far above its claim
        # (C01's business) must not widen the comparison bounds of this check
        return min(nu, 1e-9) if subdiff else nu
    if prob2["penalty"]["name"] == "WeightedL1GroupL2":
        # no reference subdifferential for the sparse-group penalty: both points are optimal for the same convex problem, so
        # their objectives agree up to the tolerance of the fits (1e-10) - 1e-7 relative is three orders above it
        if abs(F2 - FT) > 1e-7 * (1 + abs(FT)):
            out.append(("solution_does_not_transform", dict(objective_difference=F2 - FT), "<= 1e-7 relative"))
        return out, w2
    for a, b, Fa, Fb, tag in ((w2, Tw, F2, FT, "transformed fit vs transform of fit"), (Tw, w2, FT, F2, "transform of fit vs transformed fit")):
        nu = cap(RC.violation(prob2, a)[0])
        bound = max(nu, 1e-10) * float(np.sum(np.abs(np.asarray(a) - np.asarray(b)))) + 1e-9 * (1 + abs(Fb))
        if Fa - Fb > bound:
            out.append(("solution_does_not_transform", dict(direction=tag, gap=Fa - Fb, violation=nu), f"<= {bound}"))
    Xd = prob2["X"]
    Xa = np.column_stack([Xd, np.ones(Xd.shape[0])]) if prob2.get("fit_intercept") else Xd          # the intercept is a variable too
    if np.linalg.matrix_rank(Xa) == Xa.shape[1] and prob2["penalty"]["name"] in ("L1", "WeightedL1", "WeightedGroupL2", "L2_1") and \
            (prob2["datafit"] is None or prob2["datafit"]["name"].startswith("Quadratic")):
        # strong convexity (modulus mu = lambda_min(Xa' Xa / n)): ||a - b||_2 <= (nu_a + nu_b) sqrt(dim) / mu for two points of violation nu_a, nu_b
        mu = float(np.linalg.eigvalsh(Xa.T @ Xa / Xa.shape[0])[0])
        nus = cap(RC.violation(prob2, w2)[0]) + cap(RC.violation(prob2, Tw)[0])
        allowed = max(1e-6 * (1 + np.max(np.abs(Tw))), 2.0 * nus * np.sqrt(np.asarray(Tw).size) / mu)
        if np.max(np.abs(np.asarray(w2) - Tw)) > allowed:
            out.append(("coefficients_do_not_transform", float(np.max(np.abs(np.asarray(w2) - Tw))), f"<= {allowed}"))
    return out, w2


def run(task, ctx):
    tier = ctx.tier
    i, storage = task["comp"], task["storage"]
    sname, skw, dn, pk = COMPS[i]
    kind = R.KIND[dn]
    designs = [("tall6x3", A.G_TALL), ("sq4x4", A.G_SQ)]
    if tier != "quick":
        designs += [("wide3x5", A.G_WIDE), ("dup", A.K()["dup"]), ("lincomb", A.K()["lincomb"]), ("scaled-sq", A.S()["scaled-sq"]),
                    ("hadamard4x3", A.O()["hadamard4x3"]), ("tall6x3-zeromid", A.Z()["tall6x3-zeromid"])]
    for xid, X in designs:
        ts = R.targets(kind, X, tier)
        for tname_, y in (ts[-1:] if tier == "quick" else ts):
            fis = [True, False] if "fit_intercept" in R.KNOBS.get(sname, {}) else [False]
            for fi, frac in [(f, a) for f in fis for a in ((0.15,) if tier == "quick" else (0.15, 0.6))]:
                comp = base_problem(i, X, y, fi, tier, frac)
                w, e = solve(comp, storage)
                if w is None:
                    ctx.count("base_unsolved")
                    continue
                n = 0
                for tn, comp2, mp in transforms(comp, tier):
                    params = dict(op="pair", comp=comp, storage=storage, transform=tn, tier=tier, xid=xid)
                    v, w2 = exec_pair(params)
                    n += 1
                    ctx.count("transformations")
                    ctx.count("kind_" + tn.split("[")[0].split("_x")[0].rstrip("0123456789"))
                    ctx.obs(w2, nontrivial=w2 is not None and bool(np.any(w2)))
                    for kind_, got, exp in v:
                        ctx.violation(f"symmetry:{sname}", kind_, params, got, exp,
                                      where=dict(solver=sname, datafit=dn, transform=tn.split("[")[0].split("_x")[0].rstrip("0123456789"), storage=storage))
                ctx.sample(dict(comp={k: comp[k] for k in ("solver", "datafit", "penalty")}, xid=xid, storage=storage, n_transforms=n))


def replay(params):
    from mc.core import fhex
    v, w2 = exec_pair(params)
    return dict(violated=bool(v), kinds=[x[0] for x in v], detail=fhex([[x[0], x[1], x[2]] for x in v[:5]]), w2=fhex(w2))


def describe(tier, agg):
    rule = ("16 convex compositions (AndersonCD, ProxNewton, GramCD, FISTA, GroupBCD, GroupProxNewton, MultiTaskBCD; weighted penalties, "
            "non-contiguous groups) x {dense, CSC} x designs x intercept; for each, the whole symmetry group: all feature permutations "
            "(weights and group membership carried along), all group orders and reversed within-group order, all task orders, all / 24 "
            "sample orders, replication x2 x3, (y, alpha) scalings and (feature, weight) scalings by 1/4, 3, 2^10; metamorphic oracle "
            "through the optimality-gap theorem (+ coefficient equality when strongly convex); distinct = distinct transformed solutions")
    return rule, {"transformations": 1000}
