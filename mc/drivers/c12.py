"""C12 — classifier outputs are consistent with the fitted linear model(s) (engine P)."""
import itertools

import numpy as np

from mc import alphabet as A
from mc import registry as R

PROPERTY = "C12"
LEVEL = "exploration"
ASSUMPTIONS = [
    "fits use tol=1e-10; relabelling / one-vs-rest comparisons of decision values allow 1e-6 absolute + 1e-6 relative (solver tolerance), "
    "and prediction equalities are asserted only at evaluation points whose decision margin exceeds 1e-5",
    "evaluation points: the training rows, the {-1,0,1}^p grid (p <= 3; 81 points of a fixed sub-grid otherwise), and both sets scaled "
    "by 1000 (saturated probabilities; binary problems only: the one-vs-rest normalisation is 0/0 when all classes saturate)",
    "label alphabets: {-1,1}, {0,1} (int64, uint8, bool, float), {1,0}-reversed meaning, strings, (3,7,11,...); every permutation of "
    "the label set is applied for <= 3 classes, all cyclic shifts + reversal for 4",
]


def eval_points(X, saturated=True):
    p = X.shape[1]
    grid = np.array(list(itertools.product((-1.0, 0.0, 1.0), repeat=min(p, 3))))
    if p > 3:
        grid = np.hstack([grid, np.zeros((len(grid), p - 3))])
    pts = np.vstack([X, grid])
    return np.vstack([pts, 1000.0 * pts]) if saturated else pts


def make(est, fi, inner_alpha=0.02):
    import skglm
    from mc import build
    if est == "SparseLogisticRegression":
        return skglm.SparseLogisticRegression(alpha=inner_alpha, tol=1e-10, fit_intercept=fi, max_iter=100, max_epochs=200)
    if est == "LinearSVC":
        return skglm.LinearSVC(C=1.0, tol=1e-10, max_iter=100, max_epochs=5000)
    if est == "GLE-Logistic":
        return skglm.GeneralizedLinearEstimator(datafit=build.datafit_raw(dict(name="Logistic")), penalty=build.penalty_raw(dict(name="L1", alpha=inner_alpha)),
                                                solver=build.solver(dict(name="ProxNewton", kw=dict(tol=1e-10, fit_intercept=fi))))
    if est == "GLE-SVC":
        return skglm.GeneralizedLinearEstimator(datafit=build.datafit_raw(dict(name="QuadraticSVC")), penalty=build.penalty_raw(dict(name="IndicatorBox", alpha=1.0)),
                                                solver=build.solver(dict(name="AndersonCD", kw=dict(tol=1e-10, fit_intercept=False, max_epochs=5000))))
    raise KeyError(est)


ESTS = ["SparseLogisticRegression", "LinearSVC", "GLE-Logistic", "GLE-SVC"]

DESIGNS = [("tall6x3", A.G_TALL), ("sq4x4+", np.vstack([A.G_SQ, -A.G_SQ[:2] + 0.5])), ("wide3x5x2", np.vstack([A.G_WIDE, A.G_WIDE[::-1] * 0.5 + 1.0]))]
BASE_CLASSES = {2: [0, 1, 0, 0, 1, 1, 0, 1], 3: [0, 1, 2, 0, 2, 1, 1, 0], 4: [0, 1, 2, 3, 0, 2, 1, 3]}


def label_sets(k):
    sets = []
    if k == 2:
        sets = [("pm1", np.array([-1, 1])), ("01", np.array([0, 1])), ("01u8", np.array([0, 1], dtype=np.uint8)), ("bool", np.array([False, True])),
                ("01f", np.array([0.0, 1.0])), ("str", np.array(["a", "b"])), ("ints", np.array([3, 7])), ("neg", np.array([-5, -2]))]
    elif k == 3:
        sets = [("012", np.array([0, 1, 2])), ("str", np.array(["a", "b", "c"])), ("ints", np.array([3, 7, 11]))]
    else:
        sets = [("0123", np.array([0, 1, 2, 3])), ("str", np.array(["a", "b", "c", "d"]))]
    return sets


def perms(k):
    if k <= 3:
        return list(itertools.permutations(range(k)))
    base = list(range(k))
    return [tuple(base[i:] + base[:i]) for i in range(k)] + [tuple(base[::-1])]


ALPHA = [0.02]          # current L1 strength of the logistic classifiers (set per case)


def fit_one(est, fi, X, y):
    import warnings
    m = make(est, fi, ALPHA[0])
    with warnings.catch_warnings():
        warnings.simplefilter("ignore")
        m.fit(X, y)
    return m


def decision(m, P):
    f = m.decision_function if hasattr(m, "decision_function") else m._decision_function      # GLE is a LinearModel
    d = np.asarray(f(P), dtype=float)
    return d.ravel() if (d.ndim == 2 and d.shape[1] == 1) else d


def check_model(m, X, P, est):
    """Internal consistency of one fitted classifier.  Returns list of (kind, observed, expected)."""
    out = []
    d = decision(m, P)
    classes = np.asarray(m.classes_)
    pred = np.asarray(m.predict(P))
    coef = np.asarray(m.coef_, dtype=float)
    icpt = np.atleast_1d(np.asarray(m.intercept_, dtype=float))
    lin = P @ coef.T + icpt
    lin = lin.ravel() if d.ndim == 1 else lin
    if lin.shape != d.shape or not np.allclose(lin, d, rtol=1e-10, atol=1e-10):
        out.append(("decision_function_not_linear_model", [list(d.shape)], [list(lin.shape)]))
        return out
    # a batch of one row is predicted like the same row inside a larger batch
    for r in (0, len(P) // 2):
        try:
            one = np.asarray(m.predict(P[r:r + 1]))
            if one.shape != (1,) or str(one[0]) != str(pred[r]):
                out.append(("single_row_prediction_differs", dict(row=r, got=one.tolist()), str(pred[r])))
                break
        except Exception as e:
            out.append(("single_row_prediction_differs", type(e).__name__ + ": " + str(e)[:80], str(pred[r])))
            break
    if d.ndim == 1:
        sure = np.abs(d) > 1e-5
        exp = classes[(d > 0).astype(int)]
    else:
        srt = np.sort(d, axis=1)
        sure = (srt[:, -1] - srt[:, -2]) > 1e-5
        exp = classes[np.argmax(d, axis=1)]
    if np.any(pred[sure] != exp[sure]):
        i = int(np.flatnonzero(pred[sure] != exp[sure])[0])
        out.append(("predict_not_argmax_of_decision", str(pred[sure][i]), str(exp[sure][i])))
    if hasattr(m, "predict_proba"):
        pr = np.asarray(m.predict_proba(P), dtype=float)
        if pr.shape != (len(P), len(classes)):
            out.append(("proba_shape", list(pr.shape), [len(P), len(classes)]))
        elif not np.all(np.isfinite(pr)):
            out.append(("proba_not_finite", int(np.sum(~np.isfinite(pr))), 0))
        else:
            if np.any(pr < 0) or np.any(pr > 1) or not np.allclose(pr.sum(axis=1), 1.0, atol=1e-12):
                out.append(("proba_not_a_distribution", float(np.max(np.abs(pr.sum(axis=1) - 1))), 0.0))
            if d.ndim == 1:
                o = np.argsort(d, kind="stable")
                if np.any(np.diff(pr[o, 1]) < -1e-12):
                    out.append(("proba_not_monotone_in_decision", float(np.min(np.diff(pr[o, 1]))), ">= 0"))
                if np.any((pr[:, 1] > 0.5 + 1e-9) != (d > 0)) and np.any(np.abs(d) > 1e-5):
                    bad = ((pr[:, 1] > 0.5) != (d > 0)) & (np.abs(d) > 1e-5)
                    if np.any(bad):
                        out.append(("proba_inconsistent_with_decision", int(bad.sum()), 0))
            else:
                am = np.argmax(pr, axis=1)
                if np.any(am[sure] != np.argmax(d, axis=1)[sure]):
                    out.append(("proba_argmax_differs_from_decision_argmax", int(np.sum(am[sure] != np.argmax(d, axis=1)[sure])), 0))
    return out


def dec_close(a, b):
    return a.shape == b.shape and bool(np.all(np.abs(a - b) <= 1e-6 + 1e-6 * np.abs(b)))


def exec_case(case):
    ALPHA[0] = case.get("alpha", 0.02)
    X = np.array(case["X"], dtype=float)
    k = case["k"]
    est, fi = case["est"], case["fit_intercept"]
    base = np.array(case["base"] if case.get("base") is not None else BASE_CLASSES[k][:X.shape[0]])
    labels = np.array(case["labels"], dtype=case["dtype"])
    P = eval_points(X, saturated=(k == 2))     # OvR normalisation sigma(d_k) / sum_j sigma(d_j) is 0/0 when every class saturates
    y = labels[base]
    out = []
    try:
        m = fit_one(est, fi, X, y)
    except Exception as e:
        return [("exception", type(e).__name__ + ": " + str(e)[:120], "fit succeeds")], None
    out += check_model(m, X, P, est)
    d0 = decision(m, P)
    # the same fit from sparse input (CSR, as users pass it): same decision values
    import scipy.sparse as sp
    try:
        ms = fit_one(est, fi, sp.csr_matrix(X), y)
        # the logistic loss is strictly convex in the fitted values only: with a rank-deficient design the coefficients are not unique, so
        # compare on the training rows (hinge SVC: unique primal vector, compare everywhere)
        Pc, dc = (P, d0) if est in ("LinearSVC", "GLE-SVC") else (X, decision(m, X))
        ds_ = decision(ms, Pc)
        if ds_.shape != dc.shape or not bool(np.all(np.abs(ds_ - dc) <= 1e-5 + 1e-5 * np.abs(dc))):
            out.append(("decision_differs_for_sparse_input", float(np.max(np.abs(ds_ - dc))) if ds_.shape == dc.shape else "shape", "same decision values as the dense fit"))
    except Exception as e:
        out.append(("exception_for_sparse_input", type(e).__name__ + ": " + str(e)[:100], "fit succeeds"))
    # relabellings: permute which label names which underlying class
    for perm in perms(k):
        y2 = labels[np.array(perm)[base]]
        try:
            m2 = fit_one(est, fi, X, y2)
        except Exception as e:
            out.append(("exception_on_relabelling", type(e).__name__ + ": " + str(e)[:100], "fit succeeds"))
            continue
        d2 = decision(m2, P)
        # class c of the base problem is named labels[perm[c]] in the relabelled one; classes_ is sorted
        order2 = [int(np.flatnonzero(np.asarray(m2.classes_) == labels[perm[c]])[0]) for c in range(k)]
        order0 = [int(np.flatnonzero(np.asarray(m.classes_) == labels[c])[0]) for c in range(k)]
        if k == 2:
            s0 = 1.0 if order0 == [0, 1] else -1.0
            s2 = 1.0 if order2 == [0, 1] else -1.0
            same = dec_close(s2 * d2, s0 * d0)
        else:
            same = dec_close(d2[:, order2], d0[:, order0])
        if not same:
            out.append(("decision_changes_under_relabelling", dict(perm=list(perm)), "identical up to the induced permutation / sign"))
            break
        p0, p2 = np.asarray(m.predict(P)), np.asarray(m2.predict(P))
        back = {str(labels[perm[c]]): str(labels[c]) for c in range(k)}
        marg = (np.abs(d0) > 1e-5) if k == 2 else ((np.sort(d0, axis=1)[:, -1] - np.sort(d0, axis=1)[:, -2]) > 1e-5)
        if any(back[str(a)] != str(b) for a, b, s in zip(p2, p0, marg) if s):
            out.append(("prediction_changes_under_relabelling", dict(perm=list(perm)), "same classes"))
            break
    # one-vs-rest: row c == binary fit of class c vs rest
    if k > 2 and not any(o[0] == "exception" for o in out):
        for c in range(k):
            yb = np.where(base == c, 1, -1)
            mb = fit_one(est, fi, X, yb)
            row = int(np.flatnonzero(np.asarray(m.classes_) == labels[c])[0])
            db = decision(mb, P)
            if not dec_close(d0[:, row], db):
                out.append(("ovr_row_differs_from_binary_fit", dict(cls=str(labels[c]), max_abs_diff=float(np.max(np.abs(d0[:, row] - db))),
                                                                    intercept_row=float(np.atleast_1d(m.intercept_)[min(row, np.atleast_1d(m.intercept_).size - 1)]),
                                                                    intercept_binary=float(np.atleast_1d(mb.intercept_)[0])), "equal decision values"))
                break
    return out, d0


NCHUNK = 8


def plan(tier, seed):
    if tier == "quick":
        return [dict(op="clf", est=e, weight=3) for e in ESTS]
    return [dict(op="clf", est=e, chunk=c, weight=3) for e in ESTS for c in range(NCHUNK)]


def assignments(k, n):
    """Every assignment of n samples to exactly k classes, up to renaming the classes (restricted growth strings)."""
    def rec(prefix, used):
        if len(prefix) == n:
            if used == k:
                yield list(prefix)
            return
        for c in range(min(used + 1, k)):
            yield from rec(prefix + [c], max(used, c + 1))
    return list(rec([], 0))


def cases(est, tier, chunk=None):
    i = 0
    for xid, X in DESIGNS:
        n = X.shape[0]
        for k in (2, 3, 4):
            if n < 2 * k:
                continue
            # thorough: every class assignment of the 6 samples (k <= 3); the fixed one otherwise
            bases = [None] if (tier == "quick" or n > 6 or k > 3) else assignments(k, n)
            for base in bases:
                sets = label_sets(k) if base is None else label_sets(k)[:2]
                for lname, labels in sets:
                    for fi in ((True, False) if est in ("SparseLogisticRegression", "GLE-Logistic") else (False,)):
                        # a second, strong L1 strength: some one-vs-rest rows are intercept-only models
                        for alpha in ((0.02, 0.25) if (est in ("SparseLogisticRegression", "GLE-Logistic") and lname in ("pm1", "012", "0123")) else (0.02,)):
                            i += 1
                            if chunk is not None and i % NCHUNK != chunk:
                                continue
                            yield dict(est=est, fit_intercept=fi, X=X.tolist(), k=k, labels=labels.tolist(), dtype=str(labels.dtype), lname=lname, xid=xid,
                                       base=base, alpha=alpha)


def run(task, ctx):
    est = task["est"]
    n = 0
    for case in cases(est, ctx.tier, task.get("chunk")):
        v, d0 = exec_case(case)
        n += 1
        ctx.count("label_configurations")
        if case["k"] > 2:
            ctx.count("multiclass")
        ctx.obs(d0, nontrivial=d0 is not None and bool(np.any(d0)))
        for kind, got, exp in v:
            ctx.violation(f"estimator:{est}", kind, dict(op="clf", case=case), got, exp,
                          where=dict(estimator=est, n_classes=case["k"], fit_intercept=case["fit_intercept"], kind_detail=kind))
        if n <= 2:
            ctx.sample({k: case[k] for k in ("est", "k", "labels", "dtype", "xid", "fit_intercept")})


def replay(params):
    from mc.core import fhex
    v, d0 = exec_case(params["case"])
    return dict(violated=bool(v), kinds=[x[0] for x in v], detail=fhex([[x[0], x[1], x[2]] for x in v[:5]]))


def describe(tier, agg):
    rule = ("4 classifiers x 3 designs x {2,3,4} classes x label alphabets ({-1,1}, {0,1} as int64/uint8/bool/float, strings, arbitrary "
            "ints) x intercept on/off x every permutation of the label set (k<=3; shifts + reversal for k=4); evaluation points = training "
            "rows + ternary grid, both also scaled by 1000; oracles: decision_function == X coef' + intercept, predict == classes_[argmax], "
            "probabilities finite / in [0,1] / summing to one / monotone and consistent with the decision value, decision values "
            "invariant under relabelling up to the induced permutation or sign, one-vs-rest row k == separate binary fit of class k "
            "vs rest (coefficients and intercept); distinct = distinct decision matrices")
    return rule, {"label_configurations": 60, "multiclass": 10}
