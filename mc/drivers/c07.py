"""C07 — proximal operators return a global minimiser of the prox objective (engine P, full product)."""
import itertools

import numpy as np

from mc.core import derive_seed
from mc.ref import pen as RP
from mc.ref import prox as RX

PROPERTY = "C07"
LEVEL = "exploration"
ASSUMPTIONS = [
    "reference minimum = best objective over a 2001-point grid between 0 and x plus kinks, refined by "
    "golden section; it is an upper bound of the true minimum, so the oracle cannot fault a correct prox",
    "steps restricted to each penalty's admissible range (MCP: s*weight < gamma, SCAD: s < gamma-1)",
    "SLOPE explored with non-increasing alphas only (documented precondition of prox_SLOPE)",
]
TOL = 1e-8

GROUPS6 = dict(grp_ptr=[0, 2, 3, 6], grp_indices=[0, 1, 2, 3, 4, 5])
GROUPS6R = dict(grp_ptr=[0, 3, 4, 6], grp_indices=[5, 3, 1, 0, 4, 2])


def scalar_specs(tier):
    A = [0.5, 1.5] if tier == "quick" else [0.05, 0.5, 0.7, 1.5]
    W = [1.0, 2.0, 3.0, 0.0, 0.5]
    G = [3.0, 10.0, 2.0 ** 20]
    out = {}
    out["L1"] = [dict(name="L1", alpha=a, positive=p) for a in A for p in (False, True)]
    out["L1_plus_L2"] = [dict(name="L1_plus_L2", alpha=a, l1_ratio=r, positive=p)
                         for a in A for r in (1.0, 0.5, 0.1, 0.0) for p in (False, True)]
    out["WeightedL1"] = [dict(name="WeightedL1", alpha=a, weights=W, positive=p)
                         for a in A for p in (False, True)]
    out["MCPenalty"] = [dict(name="MCPenalty", alpha=a, gamma=g, positive=p)
                        for a in A for g in G for p in (False, True)]
    out["WeightedMCPenalty"] = [dict(name="WeightedMCPenalty", alpha=a, gamma=g, weights=W, positive=p)
                                for a in A for g in G for p in (False, True)]
    out["SCAD"] = [dict(name="SCAD", alpha=a, gamma=g) for a in A for g in G]
    out["IndicatorBox"] = [dict(name="IndicatorBox", alpha=a) for a in A + [0.1]]
    out["L0_5"] = [dict(name="L0_5", alpha=a) for a in A]
    out["L2_3"] = [dict(name="L2_3", alpha=a) for a in A]
    out["LogSumPenalty"] = [dict(name="LogSumPenalty", alpha=a, eps=e)
                            for a in A + [0.7] for e in (0.1, 0.3, 1.0)]
    # sqrt(alpha * step) barely above eps: the bisection bracket is narrower than its tolerance
    out["LogSumPenalty"] += [dict(name="LogSumPenalty", alpha=0.0100001, eps=0.1),
                             dict(name="LogSumPenalty", alpha=0.010001, eps=0.1)]
    out["PositiveConstraint"] = [dict(name="PositiveConstraint")]
    return out


def steps_for(spec, j, tier):
    S = [0.1, 0.5, 1.0, 2.0] if tier == "quick" else [0.1, 0.5, 1.0, 1.9, 2.0, 8.0]
    n = spec["name"]
    if n in ("MCPenalty", "WeightedMCPenalty", "BlockMCPenalty"):
        w = RP._w(spec, j) if n == "WeightedMCPenalty" else 1.0
        S = [s for s in S if s * w < spec["gamma"]]
    if n in ("SCAD", "BlockSCAD"):
        S = [s for s in S if s < spec["gamma"] - 1]
    return S


def thresholds(spec, s, j):
    n = spec["name"]
    a = spec.get("alpha", 0.0)
    w = RP._w(spec, j)
    t = [0.0]
    if n in ("L1", "WeightedL1", "L2_1", "WeightedGroupL2"):
        t += [s * a * w]
    if n == "L1_plus_L2":
        t += [s * a * spec["l1_ratio"]]
    if n in ("MCPenalty", "WeightedMCPenalty", "BlockMCPenalty"):
        t += [s * a * w, a * spec["gamma"], np.sqrt(max(s * w * spec["gamma"], 0)) * a]
    if n in ("SCAD", "BlockSCAD"):
        t += [s * a, a * (1 + s), a * spec["gamma"], a]
    if n == "IndicatorBox":
        t += [a]
    if n in ("L0_5", "L2_05"):
        t += [1.5 * (s * a) ** (2.0 / 3.0)]
    if n == "L2_3":
        t += [2.0 * (2.0 / 3.0 * s * a) ** 0.75]
    if n == "LogSumPenalty":
        e = spec["eps"]
        t += [s * a / e, max(2 * np.sqrt(s * a) - e, 0.0)]
    return t


def x_grid(spec, s, j, tier):
    n_pts = 401 if tier == "quick" else 1601
    xs = list(np.linspace(-4.0, 4.0, n_pts))
    for t in thresholds(spec, s, j):
        for sg in (1.0, -1.0):
            v = sg * t
            xs += [v, np.nextafter(v, np.inf), np.nextafter(v, -np.inf), v + 1e-9, v - 1e-9,
                   v + 1e-3, v - 1e-3]
    return np.unique(np.array(xs, dtype=float))


BLOCK_VECS = {m: [np.array(v, dtype=float) for v in itertools.product([-2.0, -0.5, 0.0, 0.5, 2.0], repeat=m)]
              for m in (1, 2, 3)}


def block_inputs(spec, s, j, m):
    vs = list(BLOCK_VECS[m])
    dirs = [np.eye(m)[0], np.ones(m) / np.sqrt(m), -np.ones(m) / np.sqrt(m)]
    if m >= 2:
        dirs.append(np.array([1.0, -1.0] + [0.0] * (m - 2)) / np.sqrt(2))
    for t in thresholds(spec, s, j):
        for d in dirs:
            for off in (0.0, 1e-9, -1e-9, 1e-3, -1e-3):
                if t + off >= 0:
                    vs.append((t + off) * d)
    return vs


def plan(tier, seed):
    tasks = [dict(op="scalar", cls=c, weight=3) for c in scalar_specs(tier)]
    tasks += [dict(op="row", cls=c, weight=2) for c in RP.ROW]
    tasks += [dict(op="group", cls="WeightedGroupL2", weight=2), dict(op="sparse_group", cls="WeightedL1GroupL2", weight=2),
              dict(op="slope", cls="SLOPE", weight=2)]
    return tasks


def row_specs(cls, tier):
    A = [0.5, 1.5]
    if cls in ("L2_1", "L2_05"):
        return [dict(name=cls, alpha=a) for a in A]
    return [dict(name=cls, alpha=a, gamma=g) for a in A for g in (3.0, 10.0, 2.0 ** 20)]


def group_specs(tier):
    out = []
    for a in (0.5, 1.5):
        for pos in (False, True):
            for lay in (GROUPS6, GROUPS6R):
                out.append(dict(name="WeightedGroupL2", alpha=a, weights=[1.0, 0.0, 2.0], positive=pos, **lay))
    return out


def sparse_group_specs(tier):
    out = []
    for a in (0.5, 1.5):
        for lay in (GROUPS6, GROUPS6R):
            out.append(dict(name="WeightedL1GroupL2", alpha=a, weights_groups=[1.0, 0.0, 2.0],
                            weights_features=[1.0, 2.0, 3.0, 0.5, 0.0, 1.5], **lay))
            out.append(dict(name="WeightedL1GroupL2", alpha=a, weights_groups=[1.0, 1.0, 1.0],
                            weights_features=[1.0] * 6, **lay))
    return out


def slope_specs(tier):
    out = []
    for p in (1, 2, 3, 4):
        for al in itertools.combinations_with_replacement([2.0, 1.0, 0.5, 0.0], p):
            out.append(dict(name="SLOPE", alphas=list(al)))
    return out


# ---------------------------------------------------------------------------------- execution

def _call(fn, *a):
    try:
        return fn(*a), None
    except Exception as e:                      # compiled code raising is itself an observation
        return None, type(e).__name__


def _judge(ctx, spec, params, u, exc, F_lib, F_ref, zero_in):
    name = spec["name"]
    where = dict(penalty=name, zero_input=bool(zero_in))
    if exc is not None:
        ctx.violation(f"penalty:{name}.prox", "exception", params, observed=exc, where=where)
        return False
    if not np.all(np.isfinite(u)):
        ctx.violation(f"penalty:{name}.prox", "non_finite", params, observed=u, where=where)
        return False
    if not np.isfinite(F_lib):
        ctx.violation(f"penalty:{name}.prox", "infeasible", params, observed=u, where=where)
        return False
    if F_lib > F_ref + TOL * max(1.0, abs(F_ref)):
        ctx.violation(f"penalty:{name}.prox", "not_global_min", params,
                      observed=dict(prox=u, objective=F_lib), expected=dict(objective_at_most=F_ref),
                      where=where)
        return False
    return True


def exec_scalar(spec, j, s, x):
    from mc import build
    p = build.penalty(spec)
    return _call(p.prox_1d, float(x), float(s), int(j))


def run(task, ctx):
    from mc import build
    tier = ctx.tier
    op, cls = task["op"], task["cls"]
    if op == "scalar":
        for spec in scalar_specs(tier)[cls]:
            p = build.penalty(spec)
            js = range(len(spec["weights"])) if "weights" in spec else [0]
            for j in js:
                for s in steps_for(spec, j, tier):
                    xs = x_grid(spec, s, j, tier)
                    Fref, _ = RX.scalar_min(spec, xs, s, j)
                    for k, x in enumerate(xs):
                        u, exc = _call(p.prox_1d, float(x), float(s), int(j))
                        F = float(RX.scalar_obj(spec, u, x, s, j)) if exc is None else np.inf
                        params = dict(op="scalar", spec=spec, j=j, s=s, x=float(x).hex())
                        _judge(ctx, spec, params, u, exc, F, float(Fref[k]), x == 0)
                        ctx.obs(u if exc is None else exc, nontrivial=(exc is None and u != 0 and u != x))
                    ctx.count("scalar_cells")
            ctx.sample(dict(op="scalar", spec=spec, n_x=len(xs)))
    elif op == "row":
        for spec in row_specs(cls, tier):
            p = build.penalty(spec)
            for s in steps_for(spec, 0, tier):
                for m in (1, 2, 3):
                    for x in block_inputs(spec, s, 0, m):
                        u, exc = _call(p.prox_1feat, x.copy(), float(s), 0)
                        F = RX.block_obj(spec, u, x, s) if exc is None else np.inf
                        Fref = RX.radial_block_min(spec, x, s)
                        params = dict(op="row", spec=spec, s=s, x=[float(v).hex() for v in x])
                        _judge(ctx, spec, params, u, exc, F, Fref, not np.any(x))
                        ctx.obs(u if exc is None else exc, nontrivial=(exc is None and bool(np.any(u))))
            ctx.sample(dict(op="row", spec=spec))
    elif op == "group":
        for spec in group_specs(tier):
            p = build.penalty(spec)
            for g, idx in enumerate(RP.groups_of(spec)):
                for s in (0.1, 0.5, 1.0, 2.0):
                    for x in block_inputs(spec, s, g, len(idx)):
                        u, exc = _call(p.prox_1group, x.copy(), float(s), g)
                        F = RX.block_obj(spec, u, x, s, g) if exc is None else np.inf
                        Fref = (RX.group_positive_min(spec, x, s, g) if spec["positive"]
                                else RX.radial_block_min(spec, x, s, g))
                        params = dict(op="group", spec=spec, s=s, g=g, x=[float(v).hex() for v in x])
                        _judge(ctx, spec, params, u, exc, F, Fref, not np.any(x))
                        ctx.obs(u if exc is None else exc, nontrivial=(exc is None and bool(np.any(u))))
            ctx.sample(dict(op="group", spec=spec))
    elif op == "sparse_group":
        for spec in sparse_group_specs(tier):
            p = build.penalty(spec)
            for g, idx in enumerate(RP.groups_of(spec)):
                for s in (0.1, 0.5, 1.0, 2.0):
                    for x in BLOCK_VECS[len(idx)]:
                        u, exc = _call(p.prox_1group, x.copy(), float(s), g)
                        F = RX.sparse_group_obj(spec, u, x, s, g, idx) if exc is None else np.inf
                        Fref = RX.sparse_group_min(spec, x, s, g, idx)
                        params = dict(op="sparse_group", spec=spec, s=s, g=g, x=[float(v).hex() for v in x])
                        _judge(ctx, spec, params, u, exc, F, Fref, not np.any(x))
                        ctx.obs(u if exc is None else exc, nontrivial=(exc is None and bool(np.any(u))))
            ctx.sample(dict(op="sparse_group", spec=spec))
    elif op == "slope":
        for spec in slope_specs(tier):
            p = build.penalty(spec)
            m = len(spec["alphas"])
            for s in (0.5, 1.0, 2.0):
                for x in BLOCK_VECS[m] if m <= 3 else [np.array(v) for v in itertools.product([-2.0, -0.5, 0.0, 0.5, 2.0], repeat=4)]:
                    u, exc = _call(p.prox_vec, x.copy(), float(s))
                    F = RX.slope_obj(spec["alphas"], u, x, s) if exc is None else np.inf
                    Fref = RX.slope_min(spec["alphas"], x, s)
                    params = dict(op="slope", spec=spec, s=s, x=[float(v).hex() for v in x])
                    _judge(ctx, spec, params, u, exc, F, Fref, not np.any(x))
                    ctx.obs(u if exc is None else exc, nontrivial=(exc is None and bool(np.any(u))))
        ctx.sample(dict(op="slope", spec=spec))
    else:
        raise KeyError(op)


def replay(params):
    from mc import build
    from mc.core import Ctx, fhex
    spec, op, s = params["spec"], params["op"], params["s"]
    p = build.penalty(spec)
    ctx = Ctx(PROPERTY, "c07", "quick")
    if op == "scalar":
        x = float.fromhex(params["x"])
        j = params["j"]
        u, exc = _call(p.prox_1d, x, float(s), int(j))
        F = float(RX.scalar_obj(spec, u, x, s, j)) if exc is None else np.inf
        Fref = float(RX.scalar_min(spec, np.array([x]), s, j)[0][0])
        zero = x == 0
    else:
        x = np.array([float.fromhex(v) for v in params["x"]])
        zero = not np.any(x)
        if op == "row":
            u, exc = _call(p.prox_1feat, x.copy(), float(s), 0)
            F = RX.block_obj(spec, u, x, s) if exc is None else np.inf
            Fref = RX.radial_block_min(spec, x, s)
        elif op == "group":
            g = params["g"]
            u, exc = _call(p.prox_1group, x.copy(), float(s), g)
            F = RX.block_obj(spec, u, x, s, g) if exc is None else np.inf
            Fref = (RX.group_positive_min(spec, x, s, g) if spec["positive"]
                    else RX.radial_block_min(spec, x, s, g))
        elif op == "sparse_group":
            g = params["g"]
            idx = RP.groups_of(spec)[g]
            u, exc = _call(p.prox_1group, x.copy(), float(s), g)
            F = RX.sparse_group_obj(spec, u, x, s, g, idx) if exc is None else np.inf
            Fref = RX.sparse_group_min(spec, x, s, g, idx)
        else:
            u, exc = _call(p.prox_vec, x.copy(), float(s))
            F = RX.slope_obj(spec["alphas"], u, x, s) if exc is None else np.inf
            Fref = RX.slope_min(spec["alphas"], x, s)
    ok = _judge(ctx, spec, params, u, exc, F, Fref, zero)
    return dict(violated=not ok, kinds=[v["kind"] for v in ctx.viol.values()],
                prox=fhex(u) if exc is None else None, exc=exc, objective=fhex(F), reference=fhex(Fref))


def describe(tier, agg):
    rule = ("full product: every penalty class with a prox x hyper-parameter grid (alpha, gamma, eps, l1_ratio, "
            "weights incl. 0, positive) x admissible steps x x-grid (401 points on [-4,4] + every closed-form "
            "threshold +-{0, 1ulp, 1e-9, 1e-3}; blocks: {-2,-.5,0,.5,2}^m, m<=3 + threshold-norm vectors; SLOPE p<=4); "
            "oracle F(prox) <= brute-force min + 1e-8, feasible, finite; distinct = distinct non-trivial outputs "
            "(prox neither 0 nor x)")
    return rule, {"scalar_cells": 20}
