"""C01 — reported convergence is a valid first-order certificate (engines P + B)."""
import itertools

import numpy as np

from mc import registry as R
from mc.ref import cert as RC

PROPERTY = "C01"
LEVEL = "model_checking"
ASSUMPTIONS = [
    "warm starts of exp-based losses (logistic, Poisson, Gamma, Cox) are kept inside |X w0 + b| <= 30 (float64 saturation regime excluded)",
    "certificate recomputed by mc/ref/cert.py from X, y and the returned coefficients only (reference losses/penalties); "
    "the measure is the one the requested strategy defines (subdifferential distance, or fixed-point residual with the "
    "documented step sizes), joined with |dF/d intercept|",
    "harness default inner budgets are capped (max_epochs=1000, max_pn_iter=100, GroupBCD max_iter=200) so that "
    "non-convergent problems terminate; the property is conditional on the solver's own convergence claim",
    "non-convex penalties only on designs inside their well-posed step range",
]
HARNESS_DEFAULTS = {"AndersonCD": dict(max_epochs=1000), "MultiTaskBCD": dict(max_epochs=1000), "GroupBCD": dict(max_iter=200),
                    "ProxNewton": dict(max_pn_iter=100), "GroupProxNewton": dict(max_pn_iter=100), "PDCD_WS": dict(max_iter=200, max_epochs=200)}


def plan(tier, seed):
    tasks = []
    for (s, d, p, st) in R.domains(tier):
        nparts = 4 if (s == "MultiTaskBCD" or d == "Cox") else (2 if s in ("GroupBCD", "GroupProxNewton", "ProxNewton") else 1)
        for part in range(nparts):
            tasks.append(dict(op="domain", solver=s, datafit=d, pen=p, storage=st, weight=3 + nparts, part=part, nparts=nparts,
                              domain=f"{s}|{d}|{p}|{st}"))
    for p0 in (1, 2):
        for fi in (False, True):
            tasks.append(dict(op="ws", p0=p0, fit_intercept=fi, weight=4, domain="AndersonCD|Quadratic|WeightedL1|ws"))
    for part in range(2):
        tasks.append(dict(op="gram_claims", part=part, weight=3, domain="GramCD|None|L1|corr"))
    return tasks


def run_gram_claims(task, ctx):
    """GramCD(use_acc=True, cyclic) on the correlated family: the value tested at the top of iteration k+1 is the score of iterate k.  For
    every k the run with budget k+1 (tol = 0) yields that value s; whenever s is below the recomputed violation of iterate k, the solver
    run with tol = s claims convergence at iterate k: that concrete run is executed and judged (the certificate of C01)."""
    from mc import comp as C
    from mc.drivers import c03
    n = 0
    for comp0 in c03.gram_acc_comps(task, ctx.tier):
        n += 1
        prev_w = None
        for k in range(1, 31):
            c = dict(comp0, solver=dict(name="GramCD", kw=dict(use_acc=True, greedy_cd=False, tol=0.0, max_iter=k)))
            r = C.execute(c)
            ctx.states += 1
            ctx.transitions += 1
            if r["status"] != "ok":
                break
            s_k = r["stop_crit"]                      # score of the iterate returned by budget k-1
            if prev_w is not None and np.isfinite(s_k):
                viol = C.certificate(c, prev_w)[0]
                ctx.count("gram_claim_points")
                ctx.obs(s_k, nontrivial=s_k > 0)
                if s_k < viol * (1 - 1e-6) - 1e-12:
                    # concrete witness: the same solve with tol = s_k stops at iterate k-1 and claims convergence
                    cw = dict(comp0, solver=dict(name="GramCD", kw=dict(use_acc=True, greedy_cd=False, tol=float(s_k) * (1 + 1e-12) + 1e-300, max_iter=100)))
                    rw = C.execute(cw)
                    v = judge(cw, rw) if rw["status"] == "ok" else None
                    if v is not None:
                        site, kind, obs, exp, where = v
                        ctx.violation(site, kind, dict(op="solve", comp=cw), obs, exp, where=where, rank=n)
            prev_w = r["w"]
            if len(r["obj_out"]) < k:
                break
    ctx.sample(dict(op="gram_claims", columns=n))


def comps_for_domain(task, tier, d_max):
    s, dn, pk, st = task["solver"], task["datafit"], task["pen"], task["storage"]
    kind = R.KIND[dn]
    for ix, (xid, X) in enumerate(R.solve_designs(tier)):
        if ix % task.get("nparts", 1) != task.get("part", 0):
            continue
        for tname, y in R.targets(kind, X, tier):
            for dspec in R.datafit_specs(dn, X, tier):
                if pk.startswith("WeightedGroupL2") and (dspec is None or "grp_ptr" not in dspec):
                    continue
                p_eff = X.shape[0] if dn == "QuadraticSVC" else X.shape[1]
                Xeff = (X * y[:, None]).T if dn == "QuadraticSVC" else X
                fi_default = R.KNOBS[s].get("fit_intercept", (False,))[0] if s in R.KNOBS else False
                pens = R.penalty_specs(pk, dspec, Xeff, y, fi_default, tier)
                multitask = y.shape[1] if kind == "multi" else 0
                for ps in pens:
                    for ks in R.knob_settings(s, d_max, tier, p_eff, multitask):
                        kw = dict(HARNESS_DEFAULTS.get(s, {}))
                        kw.update(ks["kw"])
                        kw = R.fix_kw(s, dn, kw)
                        if s == "GramCD" and kw.get("use_acc") and kw.get("greedy_cd", True):
                            continue            # documented as unsupported (UserWarning)
                        sspec = dict(name=s, kw=kw)
                        comp = dict(solver=sspec, datafit={k: v for k, v in dspec.items() if k != "layout"} if dspec else None,
                                    penalty=ps, X=X.tolist(), y=y.tolist(), storage=st, xid=xid, dev=ks["dev"])
                        if ks["start"] is not None:
                            from mc.comp import fit_intercept_of
                            W = R.starts(p_eff, fit_intercept_of(sspec), tier, multitask)
                            if ks["start"] >= len(W):
                                continue
                            if not R.start_in_range(dn, X, W[ks["start"]], fit_intercept_of(sspec)):
                                continue
                            comp["w_init"] = W[ks["start"]].tolist()
                        yield comp


def judge(comp, res):
    """Returns None (no claim / holds) or a violation tuple (site, kind, observed, expected, where)."""
    from mc import comp as C
    if res["status"] != "ok":
        return None
    tol = C.tol_of(comp["solver"])
    sc = res["stop_crit"]
    if not (sc <= tol):
        return None
    w = res["w"]
    if not np.all(np.isfinite(w)):
        return None                                   # non-finite output is C04/C13's business
    viol, parts = C.certificate(comp, w)
    prob = C.problem_of(comp)
    scale = 1.0 + float(np.abs(prob["X"]).sum()) * (1.0 + float(np.abs(prob["y"]).max()))
    bound = tol * (1 + 1e-6) + 1e-10 * scale
    from mc.ref import pen as RP
    if C.strategy_of(comp["solver"]) == "fixpoint" and comp["penalty"]["name"] not in RP.CONVEX:
        bound += 1e-6 * (1 + float(np.max(np.abs(w))))   # accuracy of the brute-force reference prox (golden section)
    if viol <= bound:
        return None
    s = comp["solver"]["name"]
    kw = comp["solver"].get("kw", {})
    dom = "intercept" if parts["intercept"] >= parts["penalty"] else "penalty"
    where = dict(solver=s, datafit=(comp["datafit"] or {}).get("name"), penalty=comp["penalty"]["name"],
                 zero_outer_budget=(kw.get(R.OUTER[s]) == 0), dominated_by=dom, within_4x=bool(viol <= 4 * bound))
    gi = comp["penalty"].get("grp_indices")
    if gi is not None:
        where["contiguous_groups"] = list(gi) == list(range(len(gi)))
    return (f"solver:{s}.stop_crit", "certificate_invalid", dict(stop_crit=sc, recomputed=viol, parts=parts), f"<= {bound}", where)


def run(task, ctx):
    from mc import comp as C
    tier = ctx.tier
    if task["op"] == "ws":
        return run_ws(task, ctx)
    if task["op"] == "gram_claims":
        return run_gram_claims(task, ctx)
    d_max = 2 if tier == "quick" else 3
    n = 0
    for comp in comps_for_domain(task, tier, d_max):
        res = C.execute(comp)
        n += 1
        ctx.states += 1
        ctx.transitions += 1
        if res["status"] != "ok":
            ctx.count("exceptions")
            ctx.obs(res["exc"]["type"], nontrivial=False)
            continue
        conv = res["stop_crit"] <= C.tol_of(comp["solver"])
        ctx.obs(res["w"], res["stop_crit"], nontrivial=bool(conv and np.any(res["w"])))
        ctx.count("converged" if conv else "budget_exhausted")
        if comp["dev"] <= 0:
            ctx.count("dev0")
        v = judge(comp, res)
        if v is not None:
            site, kind, obs, exp, where = v
            ctx.violation(site, kind, dict(op="solve", comp=comp), obs, exp, where=where, rank=n + 1000 * comp["dev"])
        if n <= 2:
            ctx.sample({k: comp[k] for k in ("solver", "datafit", "penalty", "xid", "storage")})
    if task.get("part", 0) == 0:
        ctx.count("domains")


# -------- the working-set sub-driver: full product of zero-weight patterns x warm starts x epoch budgets (p = 5) --------

WS_X = np.array([[1., 0., 2., -1., .5], [0., 1., -1., 2., 1.], [2., -1., 0., 1., -.5], [1., 1., 1., 0., 2.], [-1., 2., .5, 1., 0.],
                 [.5, -.5, 1., 1., 1.]])
WS_Y = np.array([1., -2., .5, 3., -1., 2.])


def ws_comps(task, tier):
    p = 5
    pats = list(itertools.product((0.0, 1.0), repeat=p))
    start_vals = (0.0, 1.0, -2.0)
    starts = list(itertools.product(start_vals, repeat=p))
    if tier == "quick":
        starts = starts[::3]
    for wz in pats:
        if all(v == 0 for v in wz):
            continue
        for w0 in starts:
            for e in (6, 7, 14):
                w_init = list(w0) + ([0.0] if task["fit_intercept"] else [])
                yield dict(solver=dict(name="AndersonCD", kw=dict(p0=task["p0"], max_iter=3, max_epochs=e, tol=1e-8,
                                                                  fit_intercept=task["fit_intercept"])),
                           datafit=dict(name="Quadratic"), penalty=dict(name="WeightedL1", alpha=0.3, weights=list(wz), positive=False),
                           X=WS_X.tolist(), y=WS_Y.tolist(), storage="denseF", xid="ws6x5", dev=3, w_init=w_init)


def ws_live_comps(task):
    """Liveness column of the working-set problem: cold start, generous budget, every zero-weight pattern (used by C13)."""
    p = 5
    for wz in itertools.product((0.0, 1.0), repeat=p):
        if all(v == 0 for v in wz):
            continue
        for strat in ("subdiff", "fixpoint"):
            for pos in (False, True):
                yield dict(solver=dict(name="AndersonCD", kw=dict(p0=task["p0"], max_iter=60, max_epochs=5000, tol=1e-8, ws_strategy=strat,
                                                                  fit_intercept=task["fit_intercept"])),
                           datafit=dict(name="Quadratic"), penalty=dict(name="WeightedL1", alpha=0.3, weights=list(wz), positive=pos),
                           X=WS_X.tolist(), y=WS_Y.tolist(), storage="denseF", xid="ws6x5", dev=3, live=True)
            # the same problem with the first two features rescaled by 8 (and their coefficients by 1/8 through the weights: the
            # curvature constants of the low feature indices are 64 times those of the others)
            Xs = WS_X.copy()
            Xs[:, :2] *= 8.0
            ws_ = [wz[0] * 8.0, wz[1] * 8.0] + list(wz[2:])
            yield dict(solver=dict(name="AndersonCD", kw=dict(p0=task["p0"], max_iter=60, max_epochs=5000, tol=1e-8, ws_strategy=strat,
                                                              fit_intercept=task["fit_intercept"])),
                       datafit=dict(name="Quadratic"), penalty=dict(name="WeightedL1", alpha=0.3, weights=ws_, positive=False),
                       X=Xs.tolist(), y=WS_Y.tolist(), storage="denseF", xid="ws6x5-scaled", dev=3, live=True)


def check_buffers(comp, res):
    """On return the caller's model-fit buffer equals X w + b (C05 clause, also the mechanism behind C01's failures)."""
    from mc import comp as C
    if res["status"] != "ok" or res.get("Xw_buf") is None:
        return None
    prob = C.problem_of(comp)
    u = RC.linear_predictor(prob, res["w"])
    err = float(np.max(np.abs(u - res["Xw_buf"])))
    scale = 1.0 + float(np.abs(prob["X"]).sum()) * (1.0 + float(np.max(np.abs(res["w"]))))
    if err > 1e-9 * scale:
        return err
    return None


def run_ws(task, ctx):
    from mc import comp as C
    n = 0
    for comp in ws_comps(task, ctx.tier):
        res = C.execute(comp)
        n += 1
        ctx.states += 1
        ctx.transitions += 1
        if res["status"] != "ok":
            ctx.count("exceptions")
            continue
        conv = res["stop_crit"] <= 1e-8
        ctx.obs(res["w"], res["stop_crit"], nontrivial=bool(np.any(res["w"])))
        ctx.count("converged" if conv else "budget_exhausted")
        ctx.count("ws_cells")
        v = judge(comp, res)
        if v is not None:
            site, kind, obs, exp, where = v
            ctx.violation(site, kind, dict(op="solve", comp=comp), obs, exp, where=where, rank=n)
        err = check_buffers(comp, res)
        if err is not None:
            ctx.violation("solver:AndersonCD.Xw_buffer", "fit_buffer_inconsistent", dict(op="solve", comp=comp), err, "== X w + b",
                          where=dict(solver="AndersonCD"), rank=n)
    ctx.sample(dict(op="ws", p0=task["p0"], fit_intercept=task["fit_intercept"], cells=n))


def replay(params):
    from mc import comp as C
    comp = params["comp"]
    res = C.execute(comp)
    kinds = []
    detail = C.pack(res)
    v = judge(comp, res)
    if v is not None:
        kinds.append(v[1])
        detail["judge"] = dict(observed=v[2], expected=v[3], where=v[4])
    if comp.get("xid") == "ws6x5":
        err = check_buffers(comp, res)
        if err is not None:
            kinds.append("fit_buffer_inconsistent")
            detail["buffer_error"] = err
    return dict(violated=bool(kinds), kinds=kinds, **detail)


def describe(tier, agg):
    rule = ("engine P over compile domains (solver x datafit class x penalty class x storage; %d domains): designs {tall6x3, wide3x5, "
            "sq4x4, zero-column, duplicated column, rescaled, T(3,2) representatives} x targets x datafit hyper x alpha fractions "
            "{.3,.03} (quick) / {1.5,.5,.1,.01} (thorough) of the reference critical value x all knob assignments with <= %d deviations from defaults "
            "(tol, p0, strategy, fit_intercept, use_acc/greedy, warm start from W, budget rectangle (max_iter x max_epochs incl. "
            "0 and the extrapolation periods 6,7,8,13,14)); plus the full product 2^5 zero-weight patterns x 3^5 warm starts "
            "(every third in quick) x p0 in {1,2} x epochs {6,7,14} x intercept on the 6x5 working-set problem.  Each execution is "
            "one state (a stopping point of a real trajectory); oracle evaluated when stop_crit <= tol; distinct = distinct "
            "(w, stop_crit) of converged non-zero solutions" % (len(R.domains(tier)), 2 if tier == "quick" else 3))
    return rule, {"converged": 2000, "budget_exhausted": 500, "ws_cells": 1000, "domains": 40}
