"""C09 — step-size constants are valid curvature bounds (engine P)."""
import numpy as np
import scipy.sparse as sp

from mc import alphabet as A
from mc.core import derive_seed
from mc.drivers import c06
from mc.ref import loss as RL

PROPERTY = "C09"
LEVEL = "exploration"
ASSUMPTIONS = [
    "reference curvature bounds D (sup over w of the Hessian w.r.t. the linear predictor) are the documented ones: 1/n "
    "(quadratic, Huber), sw/sum(sw), 1/(4n) (logistic); block/global constants are lambda_max(X_B' D X_B) by numpy eigvalsh",
    "sparse (power-method) constants must lie in [(1 - 2e-2) L, (1 + 1e-9) L] for each of 5 RNG seeds derived from VERIF_SEED",
    "Cox / SqrtQuadratic: raw_hessian is documented as a bound, checked as diag(raw_hessian) - Hessian positive semidefinite; "
    "Cox.get_global_lipschitz is checked as >= lambda_max(X' H(u) X) at the sampled points u (necessary condition only)",
]
RTOL = 1e-10
POWER_SLACK = 2e-2
N_SEEDS = 5


def close(a, b, scale=1.0):
    return c06.close(a, b, scale)


def lam_max(M):
    M = np.asarray(M, dtype=float)
    if M.size == 0:
        return 0.0
    return float(max(np.linalg.eigvalsh((M + M.T) / 2)[-1], 0.0))


def plan(tier, seed):
    classes = ["Quadratic", "WeightedQuadratic", "Logistic", "Huber", "QuadraticSVC", "QuadraticGroup", "LogisticGroup",
               "QuadraticMultiTask", "Cox", "SqrtQuadratic", "Poisson", "Gamma"]
    return [dict(op="lips", cls=c, weight=3 if c in ("QuadraticGroup", "Cox") else 2) for c in classes]


def designs(tier):
    out = c06.designs(tier)
    out += list(A.K().items()) + list(A.O().items())
    return out


def eval_constants(d, ds_, dspec, X, Xs, y, seeds):
    """Returns (fails, obs)."""
    from mc import build
    name = dspec["name"]
    fails, obs = [], []
    n, p = X.shape
    sargs = (Xs.data, Xs.indptr, Xs.indices)
    multitask = name == "QuadraticMultiTask"
    yy = y[:, 0] if (multitask or name == "Cox") else y
    D = RL.curvature_sup(dict(dspec, name="Quadratic") if multitask else dspec, yy) if name != "QuadraticSVC" else np.ones(n)
    scale = float(np.sum(X ** 2)) + 1.0

    def call(acc, fn, *a):
        try:
            return fn(*a)
        except Exception as e:
            fails.append((acc, "exception", type(e).__name__ + ": " + str(e)[:80], None))
            return None

    grouped = "grp_ptr" in dspec
    if grouped:
        ptr, ind = dspec["grp_ptr"], dspec["grp_indices"]
        groups = [ind[ptr[g]:ptr[g + 1]] for g in range(len(ptr) - 1)]
    if hasattr(d, "get_lipschitz") and D is not None:
        L = call("get_lipschitz", d.get_lipschitz, X, y)
        if L is not None:
            L = np.asarray(L, dtype=float)
            obs.append(L)
            if grouped:
                exp = np.array([lam_max(X[:, g].T @ (D[:, None] * X[:, g])) for g in groups])
                if L.shape != exp.shape:
                    fails.append(("get_lipschitz", "not_one_entry_per_group", list(L.shape), list(exp.shape)))
                elif not close(L, exp, scale):
                    fails.append(("get_lipschitz", "mismatch", L, exp))
            else:
                exp = D @ (X ** 2)
                if not close(L, exp, scale):
                    fails.append(("get_lipschitz", "mismatch", L, exp))
        if ds_ is not None and hasattr(ds_, "get_lipschitz_sparse"):
            for sd in seeds:
                build.seed_numba(sd)
                Ls = call("get_lipschitz_sparse", ds_.get_lipschitz_sparse, *sargs, y)
                if Ls is None:
                    break
                Ls = np.asarray(Ls, dtype=float)
                obs.append(Ls)
                # the CSC constants of a grouped datafit are consumed per group only if it can run in a group
                # solver on CSC data (gradient_g_sparse); LogisticGroup merely inherits Logistic's per-feature ones
                if grouped and hasattr(ds_, "gradient_g_sparse"):
                    exp = np.array([lam_max(X[:, g].T @ (D[:, None] * X[:, g])) for g in groups])
                    if Ls.shape != exp.shape:
                        fails.append(("get_lipschitz_sparse", "not_one_entry_per_group", list(Ls.shape), list(exp.shape)))
                        break
                    lo, hi = (1 - POWER_SLACK) * exp - 1e-12, exp * (1 + 1e-9) + 1e-12
                    if np.any(Ls < lo) or np.any(Ls > hi):
                        fails.append(("get_lipschitz_sparse", "outside_power_method_band", Ls, exp))
                        break
                else:
                    exp = D @ (X ** 2)
                    if not close(Ls, exp, scale):
                        fails.append(("get_lipschitz_sparse", "mismatch", Ls, exp))
                    break        # deterministic: one seed is enough
    if hasattr(d, "get_global_lipschitz"):
        G = call("get_global_lipschitz", d.get_global_lipschitz, X, y)
        if name == "Cox":
            expG = None
        else:
            expG = lam_max(X.T @ (D[:, None] * X)) if D is not None else None
        if G is not None and expG is not None:
            obs.append(float(G))
            if not close(float(G), expG, scale):
                fails.append(("get_global_lipschitz", "mismatch", float(G), expG))
        if ds_ is not None and hasattr(ds_, "get_global_lipschitz_sparse") and (expG is not None or name == "Cox"):
            ref = expG if expG is not None else (float(G) if G is not None else None)
            for sd in seeds:
                build.seed_numba(sd)
                Gs = call("get_global_lipschitz_sparse", ds_.get_global_lipschitz_sparse, *sargs, y)
                if Gs is None or ref is None:
                    break
                obs.append(float(Gs))
                if not ((1 - POWER_SLACK) * ref - 1e-12 <= float(Gs) <= ref * (1 + 1e-9) + 1e-12):
                    fails.append(("get_global_lipschitz_sparse", "outside_power_method_band", float(Gs), ref))
                    break
    return fails, obs


def eval_hessian_bound(d, dspec, X, y, w):
    """Cox, SqrtQuadratic: diag(raw_hessian) - H >= 0 ; Cox global constant >= lambda_max(X' H X)."""
    fails, obs = [], []
    u = X @ w
    if not c06.in_range(dspec, X, y, w):
        return fails, obs
    try:
        # the solvers call raw_grad right before raw_hessian at the same point; here it is called at ANOTHER point first, so that an
        # accessor answering from what raw_grad left behind is seen (C06's accessor histories cover the general case)
        u_other = 0.25 * u + 0.5
        if c06.in_range(dspec, X, y, w) and (dspec["name"] != "SqrtQuadratic" or np.any(y - u_other)):
            d.raw_grad(y, u_other)
        rh = np.asarray(d.raw_hessian(y, u), dtype=float)
    except Exception as e:
        return [("raw_hessian", "exception", type(e).__name__, None)], obs
    H = RL.hess(dspec, y, u)
    obs.append(rh)
    M = np.diag(rh) - H
    lmin = float(np.linalg.eigvalsh((M + M.T) / 2)[0])
    if not lmin >= -1e-10 * max(1.0, float(np.abs(H).max())):
        fails.append(("raw_hessian", "does_not_dominate_hessian", lmin, ">= 0"))
    if dspec["name"] == "Cox":
        try:
            G = float(d.get_global_lipschitz(X, y))
            need = lam_max(X.T @ H @ X)
            obs.append(G)
            if G < need * (1 - 1e-10) - 1e-12:
                fails.append(("get_global_lipschitz", "below_curvature", G, need))
        except Exception as e:
            fails.append(("get_global_lipschitz", "exception", type(e).__name__, None))
    return fails, obs


def run(task, ctx):
    tier = ctx.tier
    cls = task["cls"]
    for dspec0 in c06.specs(tier)[cls]:
        ds = designs(tier)
        if cls == "Cox":
            ds = c06.cox_designs(tier, 0) + c06.cox_designs(tier, 1)
        for xid, X in ds:
            Xf = np.asfortranarray(X)
            Xs = sp.csc_matrix(X)
            for dspec in c06.concrete_specs(dspec0, X):
                if dspec["name"] == "WeightedQuadratic" and sum(dspec["sample_weights"]) == 0:
                    continue
                tg = c06.targets(dspec, X, tier)
                if cls not in ("Cox", "SqrtQuadratic"):
                    tg = tg[:2]        # constants of the other datafits do not depend on y
                elif cls == "Cox" and tier == "quick":
                    tg = tg[::3]
                for y in tg:
                    y = np.asfortranarray(y) if y.ndim == 2 else y
                    d, ds_, fails = c06.make(dspec, Xf, Xs, y)
                    fails = [f for f in fails]          # initialisation failures are C06's, but block this check too
                    seeds = [derive_seed("c09", xid, k) for k in range(N_SEEDS)]
                    base = dict(op="const", dspec=dspec, xid=xid, X=X.tolist(), y=y.tolist(), seeds=seeds)
                    f1, obs = eval_constants(d, ds_, dspec, Xf, Xs, y, seeds)
                    ctx.obs(obs, nontrivial=bool(np.any(X)))
                    ctx.count("problems")
                    for acc, kind, got, exp in f1:
                        ctx.violation(f"datafit:{dspec['name']}.{acc}", kind, base, got, exp,
                                      where=dict(datafit=dspec["name"], accessor=acc))
                    if cls in ("Cox", "SqrtQuadratic"):
                        for w in c06.w_vals(X.shape[1], tier):
                            f2, obs = eval_hessian_bound(d, dspec, Xf, y, w)
                            if obs:
                                ctx.obs(obs, nontrivial=bool(np.any(w)))
                                ctx.count("hessian_bounds")
                            for acc, kind, got, exp in f2:
                                ctx.violation(f"datafit:{dspec['name']}.{acc}", kind, dict(base, op="hess", w=w.tolist()),
                                              got, exp, where=dict(datafit=dspec["name"], accessor=acc))
        ctx.sample(dict(dspec=dspec0, designs=len(ds)))


def replay(params):
    from mc.core import fhex
    X = np.array(params["X"], dtype=float)
    y = np.array(params["y"], dtype=float)
    y = np.asfortranarray(y) if y.ndim == 2 else y
    Xf, Xs = np.asfortranarray(X), sp.csc_matrix(X)
    dspec = params["dspec"]
    d, ds_, fails = c06.make(dspec, Xf, Xs, y)
    fails = []
    if params["op"] == "const":
        f, obs = eval_constants(d, ds_, dspec, Xf, Xs, y, params["seeds"])
    else:
        f, obs = eval_hessian_bound(d, dspec, Xf, y, np.array(params["w"], dtype=float))
    fails += f
    return dict(violated=bool(fails), kinds=sorted({f"{a}:{k}" for a, k, _, _ in fails}),
                fails=fhex([[a, k, np.asarray(g).tolist() if not isinstance(g, str) else g,
                             None if e is None else (np.asarray(e).tolist() if not isinstance(e, str) else e)] for a, k, g, e in fails][:10]),
                obs=fhex([np.asarray(o).tolist() for o in obs]))


def describe(tier, agg):
    rule = ("full product per datafit class: hyper (sample weights incl. a zero, group layouts incl. reversed/interleaved) x designs "
            "{T(2,2), T(3,2) (orbits / all), G, Z, S, K (duplicated, opposite, dependent, constant columns), O, 1-feature} x 5 "
            "power-method seeds; get_lipschitz(_sparse), get_global_lipschitz(_sparse) vs lambda_max(X_B' D X_B); Cox/Sqrt "
            "raw_hessian dominance on the w grid; distinct = distinct constant vectors for X != 0")
    return rule, {"problems": 200, "hessian_bounds": 100}
