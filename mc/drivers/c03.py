"""C03 — monotone descent under every budget; extrapolation never hurts (engine B)."""
import numpy as np

from mc import registry as R
from mc import traj
from mc.drivers import c01
from mc.ref import cert as RC
from mc.ref import pen as RP

PROPERTY = "C03"
LEVEL = "model_checking"
ASSUMPTIONS = [
    "warm starts of exp-based losses (logistic, Poisson, Gamma, Cox) are kept inside |X w0 + b| <= 30 (float64 saturation regime excluded)",
    "true objective = documented loss + documented penalty recomputed from the returned coefficients alone (mc/ref/cert.py)",
    "monotonicity is asserted only along prefix edges (k,e)->(k+1,e) and (1,e)->(1,e+1) of one deterministic trajectory, "
    "and 'never above the start' on every node; (k,e)->(k+1,e) edges are first validated by obj_out prefix equality",
    "non-convex penalties only inside their well-posed step range (gamma * L_j > 1, resp. gamma - 1 > 1 / L_j)",
    "slack 1e-12 * max(1, |objective|) for rounding",
]
DESCENT = ("AndersonCD", "GroupBCD", "MultiTaskBCD", "GramCD", "ProxNewton", "GroupProxNewton")


def domains(tier):
    D = [d for d in R.domains(tier) if d[0] in DESCENT]
    if tier == "quick":
        keep = []
        seen = set()
        for d in D:
            key = (d[0], d[1], d[2].rstrip("+"))
            if d[3] == "csc" and d[2] not in ("L1", "WeightedGroupL2", "L2_1"):
                continue
            if key in seen and d[3] != "csc":
                continue
            seen.add(key)
            keep.append(d)
        D = keep
    return D


def variants(solver, tier):
    """Knob assignments explored for each trajectory (besides the budget rectangle)."""
    K = R.KNOBS[solver]
    out = [{}]
    for name in ("ws_strategy", "p0", "fit_intercept", "use_acc", "greedy_cd"):
        if name in K:
            for alt in K[name][1][:1]:
                out.append({name: alt})
    if solver == "GramCD":
        out.append(dict(greedy_cd=False, use_acc=True))
    if "p0" in K and "fit_intercept" in K:
        out.append(dict(p0=1, fit_intercept=K["fit_intercept"][1][0]))
    return out


def plan(tier, seed):
    tasks = []
    for (s, d, p, st) in domains(tier):
        nparts = 3 if (s == "MultiTaskBCD" or d == "Cox") else 2
        for part in range(nparts):
            tasks.append(dict(op="traj", solver=s, datafit=d, pen=p, storage=st, part=part, nparts=nparts, weight=4))
    tasks.append(dict(op="reweighted", weight=3))
    for p0 in (1, 2):
        tasks.append(dict(op="deep", p0=p0, weight=3))
    for sname in ("AndersonCD", "GroupBCD", "MultiTaskBCD"):
        for part in range(2):
            tasks.append(dict(op="acc_family", solver=sname, part=part, weight=4))
    for part in range(2):
        tasks.append(dict(op="gram_acc", part=part, weight=4))
    return tasks


# ----------------------------------------------------------------- extrapolation bookkeeping on larger correlated designs
#
# Working sets that grow, shrink and move need more features than the 3-5 of the shared alphabet: a fixed family of AR(1)-correlated
# designs (n x p in {5x6, 8x12}, generator seeds 0..9, a fixed finite alphabet) x strengths x p0 in {1,2,3} x epochs {6,12}; every
# budget column max_iter = 1..7 is a trajectory.  Oracles: descent along the column, never above the start (the model-fit buffer of
# the same runs is C05's clause and is checked there, on the same family).

def corr_design(seed, n, p, T):
    rng = np.random.RandomState(seed)
    Z = rng.randn(n, p)
    for j in range(1, p):
        Z[:, j] = 0.8 * Z[:, j - 1] + 0.6 * Z[:, j]
    Wt = np.zeros((p, max(T, 1)))
    for j in rng.choice(p, max(2, p // 5), replace=False):
        Wt[j] = rng.randn(max(T, 1)) * 2
    Y = Z @ Wt + 0.3 * rng.randn(n, max(T, 1))
    Z, Y = np.round(Z * 64) / 64, np.round(Y * 64) / 64            # exact in binary
    return Z, (Y if T else Y[:, 0])


def acc_family_comps(task, tier):
    sname = task["solver"]
    shapes = ((5, 6), (8, 12))
    seeds = range(10) if tier != "quick" else range(6)
    for (n, p) in shapes:
        for seed in seeds:
            if seed % 2 != task["part"]:
                continue
            T = 2 if sname == "MultiTaskBCD" else 0
            X, y = corr_design(seed, n, p, T)
            G = np.linalg.norm(X.T @ y, axis=1) if T else np.abs(X.T @ y)
            amax = float(np.max(G)) / n
            for rho in (0.1, 0.02):
                if sname == "AndersonCD":
                    dspec, ps = dict(name="Quadratic"), dict(name="L1", alpha=rho * amax, positive=False)
                elif sname == "GroupBCD":
                    ptr, ind = list(range(0, p + 1, 2)), list(range(p))
                    dspec = dict(name="QuadraticGroup", grp_ptr=ptr, grp_indices=ind)
                    ps = dict(name="WeightedGroupL2", alpha=rho * amax, weights=[1.0] * (p // 2), grp_ptr=ptr, grp_indices=ind, positive=False)
                else:
                    dspec, ps = dict(name="QuadraticMultiTask"), dict(name="L2_1", alpha=rho * amax)
                for p0 in (1, 2, 3):
                    for me in (6, 12):
                        kw = dict(p0=p0, max_epochs=me, tol=1e-14, fit_intercept=False)
                        yield dict(solver=dict(name=sname, kw=kw), datafit=dspec, penalty=ps, X=X.tolist(), y=y.tolist(), storage="denseF",
                                   xid=f"corr{n}x{p}s{seed}", w_init=(np.zeros((p, T)) if T else np.zeros(p)).tolist())


def ar_design(seed, n, p, rho):
    """AR(1) design with correlation rho (0.95 / 0.99), 5-sparse truth; entries rounded to multiples of 1/64."""
    rng = np.random.RandomState(seed)
    Z = rng.randn(n, p)
    X = np.empty((n, p))
    X[:, 0] = Z[:, 0]
    for j in range(1, p):
        X[:, j] = rho * X[:, j - 1] + np.sqrt(1 - rho ** 2) * Z[:, j]
    w = np.zeros(p)
    k = min(5, p // 2)
    w[rng.choice(p, k, replace=False)] = rng.randn(k)
    y = X @ w + 0.3 * rng.randn(n)
    return np.round(X * 64) / 64, np.round(y * 64) / 64


def ar_family_comps(part, tier):
    """AndersonCD at its DEFAULT tolerance and budgets on strongly correlated p > n designs (the inner solver then stops on epochs where
    an extrapolation was just rejected, and working sets shrink): a fixed family, fully enumerated."""
    seeds = range(20) if tier != "quick" else range(12)
    for (n, p) in ((10, 30), (20, 40)):
        for rho in (0.95, 0.99):
            for seed in seeds:
                if seed % 2 != part:
                    continue
                X, y = ar_design(seed, n, p, rho)
                amax = float(np.max(np.abs(X.T @ y))) / n
                for fr in (0.05, 0.01):
                    for p0 in (3, 5, 10):
                        yield dict(solver=dict(name="AndersonCD", kw=dict(p0=p0, fit_intercept=False)), datafit=dict(name="Quadratic"),
                                   penalty=dict(name="L1", alpha=fr * amax, positive=False), X=X.tolist(), y=y.tolist(), storage="denseF",
                                   xid=f"ar{n}x{p}r{rho}s{seed}", w_init=np.zeros(p).tolist())


def exec_acc_column(comp, ks=(1, 2, 3, 4, 5, 6, 7)):
    from mc import comp as C
    out, objs = [], {}
    f0 = C.objective(comp, np.array(comp["w_init"], dtype=float))
    prob = C.problem_of(comp)
    for k in ks:
        c = dict(comp, solver=dict(comp["solver"], kw=dict(comp["solver"]["kw"], max_iter=k)))
        r = C.execute(c)
        if r["status"] != "ok":
            out.append(("exception", k, r["exc"]["type"] + ": " + r["exc"]["message"][:80], "solve succeeds"))
            continue
        w = r["w"]
        f = C.objective(c, w)
        objs[k] = f
        if f > f0 + tolerance(f0):
            out.append(("above_start", k, f - f0, "<= 0"))
        if k - 1 in objs and f > objs[k - 1] + tolerance(objs[k - 1]):
            out.append(("objective_increased", k, f - objs[k - 1], "<= 0"))
        if r["stop_crit"] <= 1e-14:
            break
    return out, objs


# GramCD: one outer iteration is one epoch, so the plain (un-extrapolated) successor of every state of an accelerated run can be computed:
# "accepting an extrapolated point never increases the objective" is checked on every transition k-1 -> k against that successor.

def gram_acc_comps(task, tier):
    seeds = range(10) if tier != "quick" else range(6)
    for (n, p) in ((5, 6), (8, 12), (10, 8)):
        for seed in seeds:
            if seed % 2 != task["part"]:
                continue
            X, y = corr_design(seed, n, p, 0)
            amax = float(np.max(np.abs(X.T @ y))) / n
            for rho in (0.1, 0.02):
                for pos in (False, True):
                    yield dict(solver=dict(name="GramCD", kw=dict(use_acc=True, greedy_cd=False, tol=1e-14)), datafit=None,
                               penalty=dict(name="L1", alpha=rho * amax, positive=pos), X=X.tolist(), y=y.tolist(), storage="denseF",
                               xid=f"corr{n}x{p}s{seed}", w_init=np.zeros(p).tolist())


def exec_gram_column(comp, kmax=21):
    from mc import comp as C
    out, objs = [], {}
    prev = np.array(comp["w_init"], dtype=float)
    f0 = C.objective(comp, prev)
    for k in range(1, kmax + 1):
        c = dict(comp, solver=dict(comp["solver"], kw=dict(comp["solver"]["kw"], max_iter=k)))
        r = C.execute(c)
        if r["status"] != "ok":
            out.append(("exception", k, r["exc"]["type"] + ": " + r["exc"]["message"][:80], "solve succeeds"))
            break
        w = r["w"]
        f = C.objective(c, w)
        objs[k] = f
        # plain successor of the previous state: one cyclic epoch without extrapolation
        cp = dict(comp, w_init=prev.tolist(), solver=dict(name="GramCD", kw=dict(use_acc=False, greedy_cd=False, tol=1e-14, max_iter=1)))
        rp = C.execute(cp)
        if rp["status"] == "ok":
            fp = C.objective(cp, rp["w"])
            if np.isfinite(fp) and f > fp + tolerance(fp):
                out.append(("extrapolation_worse_than_plain_epoch", k, f - fp, "<= 0"))
        if f > f0 + tolerance(f0):
            out.append(("above_start", k, f - f0, "<= 0"))
        prev = w
        if r["stop_crit"] <= 1e-14:
            break
    return out, objs


def run_gram_acc(task, ctx):
    n = 0
    for comp in gram_acc_comps(task, ctx.tier):
        v, objs = exec_gram_column(comp)
        n += 1
        ctx.states += len(objs)
        ctx.transitions += len(objs)
        ctx.count("gram_acc_columns")
        ctx.obs(list(objs.values()), nontrivial=len(objs) > 1, n=max(1, len(objs)))
        for kind, k, got, exp in v:
            ctx.violation("solver:GramCD.extrapolation", kind, dict(op="gram_column", comp=comp), dict(k=k, value=got), exp,
                          where=dict(solver="GramCD", family="correlated", positive=bool(comp["penalty"].get("positive"))))
    ctx.sample(dict(op="gram_acc", columns=n))


def run_acc_family(task, ctx):
    n = 0
    for comp in acc_family_comps(task, ctx.tier):
        v, objs = exec_acc_column(comp)
        n += 1
        ctx.states += len(objs)
        ctx.transitions += max(0, len(objs) - 1)
        ctx.count("acc_family_columns")
        ctx.obs(list(objs.values()), nontrivial=len(objs) > 1, n=max(1, len(objs)))
        for kind, k, got, exp in v:
            ctx.violation(f"solver:{task['solver']}.extrapolation", kind, dict(op="acc_column", comp=comp), dict(k=k, value=got), exp,
                          where=dict(solver=task["solver"], family="correlated"))
    ctx.sample(dict(op="acc_family", solver=task["solver"], columns=n))


def deep_comps(task, tier):
    """Long columns (k up to 12) at the extrapolation periods with tiny working sets on correlated designs."""
    from mc import alphabet as A
    Xs = [("ws6x5", c01.WS_X, c01.WS_Y), ("dup", A.K()["dup"], A.reg_targets(A.K()["dup"])["generic"]),
          ("lincomb", A.K()["lincomb"], A.reg_targets(A.K()["lincomb"])["shifted"])]
    for xid, X, y in Xs:
        p = X.shape[1]
        a0 = float(np.max(np.abs(X.T @ (y - y.mean()))) / len(y))
        for frac in (0.3, 0.05, 0.005):
            for ps in (dict(name="L1", alpha=frac * a0, positive=False),
                       dict(name="WeightedL1", alpha=frac * a0, weights=([1.0, 0.0, 2.0, 0.0, 1.0])[:p], positive=False),
                       dict(name="L1_plus_L2", alpha=2 * frac * a0, l1_ratio=0.5, positive=False)):
                for fi in (True, False):
                    starts = [None] + [w for w in R.starts(p, fi, "thorough")][:6:2]
                    for w0 in starts:
                        comp = dict(solver=dict(name="AndersonCD", kw=dict(p0=task["p0"], tol=1e-12, fit_intercept=fi)),
                                    datafit=dict(name="Quadratic"), penalty=ps, X=X.tolist(), y=y.tolist(), storage="denseF", xid=xid)
                        if w0 is not None:
                            comp["w_init"] = w0.tolist()
                        yield comp


def base_comps(task, tier):
    """Problems x knob variants x starts (cold + warm) for one domain; budgets are added by the explorer."""
    s, dn, pk, st = task["solver"], task["datafit"], task["pen"], task["storage"]
    kind = R.KIND[dn]
    for ix, (xid, X) in enumerate(R.solve_designs(tier)):
        if ix % task.get("nparts", 1) != task.get("part", 0):
            continue
        for tname, y in R.targets(kind, X, tier)[:1 if tier == "quick" else 2]:
            for dspec in R.datafit_specs(dn, X, tier):
                if pk.startswith("WeightedGroupL2") and (dspec is None or "grp_ptr" not in dspec):
                    continue
                p_eff = X.shape[0] if dn == "QuadraticSVC" else X.shape[1]
                Xeff = (X * y[:, None]).T if dn == "QuadraticSVC" else X
                fi_default = R.KNOBS[s].get("fit_intercept", (False,))[0]
                multitask = y.shape[1] if kind == "multi" else 0
                for ps in R.penalty_specs(pk, dspec, Xeff, y, fi_default, tier):
                    for var in variants(s, tier):
                        kw = dict(tol=1e-10)
                        kw.update(var)
                        kw = R.fix_kw(s, dn, kw)
                        sspec = dict(name=s, kw=kw)
                        from mc.comp import fit_intercept_of
                        W = R.starts(p_eff, fit_intercept_of(sspec), tier, multitask)
                        starts = [None] + ([W[0], W[-1]] if s != "LBFGS" else [])
                        for w0 in starts:
                            comp = dict(solver=sspec, datafit={k: v for k, v in dspec.items() if k != "layout"} if dspec else None,
                                        penalty=ps, X=X.tolist(), y=y.tolist(), storage=st, xid=xid)
                            if w0 is not None:
                                if not R.start_in_range(dn, X, w0, fit_intercept_of(sspec)):
                                    continue
                                if ps.get("positive") or ps["name"] in ("PositiveConstraint", "IndicatorBox"):
                                    continue        # infeasible warm starts have an infinite start objective
                                comp["w_init"] = w0.tolist()
                            yield comp


def start_objective(comp):
    from mc import comp as C
    prob = C.problem_of(comp)
    p = prob["X"].shape[1]
    if comp.get("w_init") is not None:
        w0 = np.array(comp["w_init"], dtype=float)
    else:
        y = prob["y"]
        T = y.shape[1] if (y.ndim == 2 and (comp["datafit"] or {}).get("name") == "QuadraticMultiTask") else 0
        w0 = np.zeros((p + prob["fit_intercept"], T)) if T else np.zeros(p + prob["fit_intercept"])
    return C.objective(comp, w0)


def tolerance(v):
    return 1e-12 * max(1.0, abs(v))


def check_trajectory(comp, nodes, edges):
    """Returns (violations, stats).  violations: list of (kind, (k,e) node or edge, observed, expected)."""
    from mc import comp as C
    viol = []
    stats = dict(nodes=0, edges=0, edges_skipped=0, accepted_extrap=0)
    obj = {}
    try:
        f0 = start_objective(comp)
    except Exception:
        f0 = np.inf
    for key, (c, r) in nodes.items():
        if r["status"] != "ok" or not np.all(np.isfinite(r["w"])):
            continue
        stats["nodes"] += 1
        f = C.objective(c, r["w"])
        if not np.isfinite(f):
            continue               # overflow regime of the reference objective: outside the alphabet
        obj[key] = f
        if np.isfinite(f0) and not (f <= f0 + tolerance(f0)):
            viol.append(("above_start", key, f, f0))
    for a, b in edges:
        if a not in obj or b not in obj:
            continue
        ra, rb = nodes[a][1], nodes[b][1]
        if a[1] == b[1] and not traj.prefix_ok(ra, rb):
            stats["edges_skipped"] += 1
            continue
        stats["edges"] += 1
        if not (obj[b] <= obj[a] + tolerance(obj[a])):
            viol.append(("objective_increased", (a, b), obj[b], obj[a]))
    return viol, stats


def where_of(comp, at):
    """Coarse predicates of a descent violation (used to match known findings)."""
    ps = comp["penalty"]
    contiguous = None
    if "grp_indices" in ps:
        contiguous = list(ps["grp_indices"]) == list(range(len(ps["grp_indices"])))
    flat = at if isinstance(at[0], (list, tuple)) else [at]
    inner = sorted({(-1 if node[1] is None else int(node[1])) for node in flat})
    return dict(solver=comp["solver"]["name"], datafit=(comp["datafit"] or {}).get("name"), penalty=ps["name"],
                contiguous_groups=contiguous, max_inner_budget=max(inner) if -1 not in inner else 10 ** 9)


def run(task, ctx):
    if task["op"] == "acc_family":
        return run_acc_family(task, ctx)
    if task["op"] == "gram_acc":
        return run_gram_acc(task, ctx)
    from mc import comp as C
    if task["op"] == "reweighted":
        return run_reweighted(task, ctx)
    tier = ctx.tier
    if task["op"] == "deep":
        s, ks, es, gen = "AndersonCD", list(range(13)), [7, 14], deep_comps(task, tier)
    else:
        s = task["solver"]
        ks, es = traj.grid(s, tier)
        gen = base_comps(task, tier)
    n = 0
    for comp in gen:
        nodes, edges = traj.explore(comp, ks, es, c01.HARNESS_DEFAULTS, C.execute)
        viol, st = check_trajectory(comp, nodes, edges)
        n += 1
        ctx.states += st["nodes"]
        ctx.transitions += st["edges"]
        ctx.count("edges_unvalidated", st["edges_skipped"])
        ctx.count("trajectories")
        ws = [r["w"] for (_, r) in nodes.values() if r["status"] == "ok"]
        ctx.obs(ws, nontrivial=len({w.tobytes() for w in ws}) > 2, n=len(nodes))
        # accepted extrapolations: budgets e=6 and e=7 differ by more than one plain epoch would explain -> counted by twin
        for kind, where_, got, exp in viol:
            ctx.violation(f"solver:{s}.descent", kind, dict(op="traj", comp=comp, ks=ks, es=es, at=where_), got, exp,
                          where=where_of(comp, where_), rank=n)
        if n <= 2:
            ctx.sample(dict(comp={k: comp[k] for k in ("solver", "datafit", "penalty", "xid", "storage")}, ks=ks, es=es))
    if task["op"] != "deep":
        count_extrapolations(task, ctx)


def count_extrapolations(task, ctx):
    """Non-vacuity: on one problem of the domain, is the iterate after the extrapolation epoch (7) different from the
    iterate the un-accelerated twin produces?  (only solvers with a use_acc switch have a twin)"""
    from mc import comp as C
    s = task["solver"]
    if s not in ("MultiTaskBCD", "GramCD"):
        return
    for comp in base_comps(task, ctx.tier):
        if comp.get("w_init") is not None:
            continue
        kw = dict(comp["solver"]["kw"])
        if s == "GramCD":
            a = dict(comp, solver=dict(name=s, kw=dict(kw, greedy_cd=False, use_acc=True, max_iter=7)))
            b = dict(comp, solver=dict(name=s, kw=dict(kw, greedy_cd=False, use_acc=False, max_iter=7)))
        else:
            a = dict(comp, solver=dict(name=s, kw=dict(kw, use_acc=True, max_iter=1, max_epochs=6)))
            b = dict(comp, solver=dict(name=s, kw=dict(kw, use_acc=False, max_iter=1, max_epochs=6)))
        ra, rb = C.execute(a), C.execute(b)
        if ra["status"] == "ok" and rb["status"] == "ok" and not np.array_equal(ra["w"], rb["w"]):
            ctx.count("accepted_extrapolations")


# ------------------------------------------------------------------------------ iterative reweighting

def run_reweighted(task, ctx):
    import skglm.penalties as Pn
    from skglm.datafits import Quadratic
    from skglm.experimental.reweighted import IterativeReweightedL1
    from skglm.solvers import AndersonCD
    from mc.ref import cert as RC
    tier = ctx.tier
    for xid, X in R.solve_designs(tier):
        y = R.targets("reg", X, tier)[0][1]
        for pname in ("L0_5", "L2_3", "LogSumPenalty"):
            for frac in (0.3, 0.05):
                a0 = RC.alpha_crit(dict(datafit=None, X=X, y=y, fit_intercept=False))
                ps = dict(name=pname, alpha=frac * a0, **({"eps": 1.0} if pname == "LogSumPenalty" else {}))
                for nrw in (1, 2, 4, 6):
                    params = dict(op="reweighted", X=X.tolist(), y=y.tolist(), penalty=ps, n_reweights=nrw, xid=xid)
                    res = exec_reweighted(params)
                    ctx.states += nrw
                    ctx.transitions += max(nrw - 1, 0)
                    ctx.count("reweighted_runs")
                    ctx.obs(res.get("hist"), nontrivial=res.get("status") == "ok")
                    for kind, got, exp in res["viol"]:
                        ctx.violation("estimator:IterativeReweightedL1.loss_history_", kind, params, got, exp,
                                      where=dict(penalty=pname))
    ctx.sample(dict(op="reweighted", penalties=["L0_5", "L2_3", "LogSumPenalty"], n_reweights=[1, 2, 4, 6]))


def exec_reweighted(params):
    from skglm.datafits import Quadratic
    from skglm.experimental.reweighted import IterativeReweightedL1
    from skglm.solvers import AndersonCD
    from mc import build
    from mc.ref import cert as RC
    X = np.asfortranarray(np.array(params["X"], dtype=float))
    y = np.array(params["y"], dtype=float)
    ps = params["penalty"]
    viol = []
    try:
        est = IterativeReweightedL1(datafit=Quadratic(), penalty=build.penalty_raw(ps),
                                   solver=AndersonCD(tol=1e-9, max_iter=30, max_epochs=2000, fit_intercept=False), n_reweights=params["n_reweights"])
        est.fit(X, y)
    except Exception as e:
        return dict(status="exc", exc=type(e).__name__, viol=[("exception", type(e).__name__ + ": " + str(e)[:100], None)], hist=None)
    hist = np.array(est.loss_history_, dtype=float)
    prob = dict(datafit=None, penalty=ps, X=X, y=y, fit_intercept=False)
    last = RC.objective(prob, est.coef_)
    if len(hist) != params["n_reweights"]:
        viol.append(("history_length", len(hist), params["n_reweights"]))
    if len(hist) and abs(hist[-1] - last) > 1e-9 * max(1, abs(last)):
        viol.append(("history_not_objective", float(hist[-1]), last))
    for i in range(len(hist) - 1):
        if not hist[i + 1] <= hist[i] + 1e-9 * max(1.0, abs(hist[i])):
            viol.append(("majorised_objective_increased", [float(hist[i]), float(hist[i + 1])], "non-increasing"))
            break
    return dict(status="ok", viol=viol, hist=hist)


def replay(params):
    if params.get("op") == "gram_column":
        from mc.core import fhex
        v, objs = exec_gram_column(params["comp"])
        return dict(violated=bool(v), kinds=sorted({x[0] for x in v}), detail=fhex([[x[0], x[1], x[2]] for x in v[:6]]), objs=fhex(list(objs.values())))
    if params.get("op") == "acc_column":
        from mc.core import fhex
        v, objs = exec_acc_column(params["comp"])
        return dict(violated=bool(v), kinds=sorted({x[0] for x in v}), detail=fhex([[x[0], x[1], x[2]] for x in v[:6]]), objs=fhex(list(objs.values())))
    from mc import comp as C
    from mc.core import fhex
    if params["op"] == "reweighted":
        res = exec_reweighted(params)
        return dict(violated=bool(res["viol"]), kinds=[v[0] for v in res["viol"]], hist=fhex(res.get("hist")))
    comp = params["comp"]
    nodes, edges = traj.explore(comp, params["ks"], params["es"], c01.HARNESS_DEFAULTS, C.execute)
    viol, st = check_trajectory(comp, nodes, edges)
    return dict(violated=bool(viol), kinds=sorted({v[0] for v in viol}),
                detail=fhex([[v[0], str(v[1]), v[2], v[3]] for v in viol[:10]]),
                objs=fhex({str(k): (C.objective(c, r["w"]) if r["status"] == "ok" and np.all(np.isfinite(r["w"])) else None)
                           for k, (c, r) in nodes.items()}))


def describe(tier, agg):
    rule = ("engine B: for each descent solver x datafit x penalty domain, designs x targets x alphas x knob variants (strategy, "
            "p0, intercept, acceleration, greedy) x {cold, 2 warm starts}: every stopping point (k, e) of the rectangle "
            "k in 0..4 (0..6 thorough) x e in {1,2,6,7,8,14,default} ({1,2,3,5,6,7,8,12..15,default} thorough) is a state "
            "(one real solve); transitions are the validated prefix edges; true objective non-increasing on every edge and "
            "never above the start; IterativeReweightedL1: loss_history_ non-increasing, of length n_reweights, last entry == "
            "objective; plus 'deep' columns k in 0..12 at e in {7,14} with p0 in {1,2} on correlated designs (working sets smaller "
            "than the support, zero weights, warm starts); plus the extrapolating solvers (AndersonCD, GroupBCD, MultiTaskBCD) on a fixed "
            "family of AR(1)-correlated 5x6 / 8x12 designs x 2 strengths x p0 in {1,2,3} x epochs {6,12}, columns max_iter = 1..7 "
            "(working sets that grow, shrink and move): descent, never above the start, model-fit buffer == X w on return; GramCD(use_acc) "
            "columns 1..21 on the same family (+10x8), L1 and L1+: every transition compared with the plain epoch from the same state; "
            "distinct = trajectories with > 2 distinct iterates")
    return rule, {"trajectories": 300, "accepted_extrapolations": 1, "reweighted_runs": 50, "acc_family_columns": 200}
