"""C11 — each ready-made estimator minimises exactly its documented objective (engine P)."""
import itertools

import numpy as np

from mc import alphabet as A
from mc import registry as R
from mc.ref import cert as RC
from mc.ref import pen as RP

PROPERTY = "C11"
LEVEL = "exploration"
ASSUMPTIONS = [
    "the objective of every estimator is written from its docstring in mc/estim.py:documented_problem (never from skglm classes): "
    "1/(2n)||y-Xw||^2 + alpha||w||_1 (Lasso), weights_j (WeightedLasso), l1_ratio mixing (ElasticNet), MCP with gamma (and weights), "
    "alpha sum_g weights_g ||w_g|| with the three group formats (GroupLasso), ||.||_21 (MultiTaskLasso), logistic loss + alpha||w||_1, "
    "the SVC dual with box [0, C], Cox (Efron / Breslow as named by `method`) + elastic-net, ||y-Xw||_2 + alpha||w||_1 (SqrtLasso)",
    "the certificate clause applies when the estimator reports stop_crit_ <= tol (SqrtLasso / MultiTaskLasso expose no such value "
    "through the documented attributes: their solution is compared with an independent optimum through the objective)",
    "convex cases are additionally compared with an independent reference optimum (scikit-learn / celer / plain proximal gradient) "
    "through the optimality-gap theorem",
]
TOL = 1e-8


def designs(tier):
    out = [("tall6x3", A.G_TALL), ("wide3x5", A.G_WIDE), ("dup", A.K()["dup"]), ("hadamard", A.O()["hadamard4x3"])]
    if tier != "quick":
        out += [("sq4x4", A.G_SQ), ("const", A.K()["const"])]
        # every {-1,0,1} design with 4 samples x 2 features and 2 samples x 3 features (one per row-permutation / sign orbit)
        out += [("T42o%d" % i, X) for i, X in enumerate(A.T_orbits(4, 2)) if np.any(X)]
        out += [("T23o%d" % i, X) for i, X in enumerate(A.T_orbits(2, 3)) if np.any(X)]
    return out


def grids(name, p, tier):
    """Constructor-argument grids (documented arguments only)."""
    fi = (True, False)
    al = (0.3, 0.03) if tier == "quick" else (1.0, 0.3, 0.03)
    W = [None, [1.0, 2.0, 0.0, 0.5, 3.0][:p], [1.0] * p]
    out = []
    if name == "Lasso":
        for a, f, pos in itertools.product(al, fi, (False, True)):
            out.append(dict(alpha=a, fit_intercept=f, positive=pos))
    elif name == "WeightedLasso":
        for a, f, w, pos in itertools.product(al, fi, W, (False, True)):
            out.append(dict(alpha=a, fit_intercept=f, weights=w, positive=pos))
    elif name == "ElasticNet":
        for a, f, r, pos in itertools.product(al, fi, (1.0, 0.5, 0.1, 0.0), (False, True)):
            out.append(dict(alpha=a, fit_intercept=f, l1_ratio=r, positive=pos))
    elif name == "MCPRegression":
        for a, f, g, w in itertools.product(al, fi, (3.0, 10.0), W):
            out.append(dict(alpha=a, fit_intercept=f, gamma=g, weights=w))
    elif name == "GroupLasso":
        formats = {3: [1, [2, 1], [[0, 2], [1]], [[2], [1, 0]], 3], 5: [1, [2, 3], [[0, 3], [1, 2, 4]], [[4, 0], [3], [2, 1]], 5], 4: [2, [1, 3], [[0, 3], [1, 2]]], 2: [1, [1, 1], [[1], [0]], 2]}[p]
        for a, f, g, pos in itertools.product(al, fi, formats, (False, True)):
            ng = len(g) if isinstance(g, list) else p // g
            for w in (None, [1.0, 2.0, 0.5, 3.0, 1.0][:ng]):
                out.append(dict(alpha=a, fit_intercept=f, groups=g, weights=w, positive=pos))
    elif name == "MultiTaskLasso":
        for a, f in itertools.product(al, fi):
            out.append(dict(alpha=a, fit_intercept=f))
    elif name == "SparseLogisticRegression":
        for a, f in itertools.product(al, fi):
            out.append(dict(alpha=a * 0.3, fit_intercept=f))
    elif name == "LinearSVC":
        for c in (0.1, 1.0, 10.0):
            out.append(dict(C=c))
    elif name == "CoxEstimator":
        for a, r, m in itertools.product((0.1, 0.01), (1.0, 0.7, 0.0), ("efron", "breslow")):
            out.append(dict(alpha=a, l1_ratio=r, method=m))
    elif name == "SqrtLasso":
        for a in (0.5, 0.1):
            out.append(dict(alpha=a))
    return out


ESTIMATORS = ["Lasso", "WeightedLasso", "ElasticNet", "MCPRegression", "GroupLasso", "MultiTaskLasso", "SparseLogisticRegression",
              "LinearSVC", "CoxEstimator", "SqrtLasso", "GLE"]


NCHUNK = 6


def plan(tier, seed):
    if tier == "quick":
        return [dict(op="est", est=e, weight=3) for e in ESTIMATORS]
    return [dict(op="est", est=e, chunk=c, weight=3) for e in ESTIMATORS for c in range(NCHUNK)]


def target_for(name, X, tier, k=0):
    if name in ("SparseLogisticRegression", "LinearSVC"):
        t = R.targets("clf", X, tier)
        return t[k % len(t)][1]
    if name == "MultiTaskLasso":
        t = R.targets("multi", X, tier)
        return t[k % len(t)][1]
    if name == "CoxEstimator":
        n = X.shape[0]
        ties = np.column_stack([[1., 2., 2., 3., 2., 1., 3., 3.][:n], [1., 1., 1., 1., 0., 1., 1., 0.][:n]])
        return [ties, R.SURV[1][:n]][k % 2]
    return R.targets("reg", X, tier)[::-1][k % 2][1]


def reference_solution(spec, prob):
    """Independent optimum of the documented (convex) problem, or None."""
    import warnings
    name, kw = spec["name"], spec["kw"]
    X, y = prob["X"], prob["y"]
    n, p = X.shape
    fi = prob["fit_intercept"]
    with warnings.catch_warnings():
        warnings.simplefilter("ignore")
        try:
            if name in ("Lasso", "ElasticNet") or (name == "WeightedLasso" and kw.get("weights") is None):
                from sklearn.linear_model import ElasticNet as SkEN
                r = kw.get("l1_ratio", 1.0) if name == "ElasticNet" else 1.0
                if r == 0.0:
                    return None
                m = SkEN(alpha=kw["alpha"], l1_ratio=r, fit_intercept=fi, positive=bool(kw.get("positive")), tol=1e-14, max_iter=200000).fit(X, y)
                return np.append(m.coef_, m.intercept_) if fi else m.coef_
            if name == "MultiTaskLasso":
                from sklearn.linear_model import MultiTaskLasso as SkMT
                m = SkMT(alpha=kw["alpha"], fit_intercept=fi, tol=1e-14, max_iter=200000).fit(X, y)
                W = m.coef_.T
                return np.vstack([W, m.intercept_[None, :]]) if fi else W
            if name == "SparseLogisticRegression":
                from sklearn.linear_model import LogisticRegression
                m = LogisticRegression(penalty="l1", C=1.0 / (n * kw["alpha"]), fit_intercept=fi, solver="liblinear", tol=1e-12,
                                       max_iter=100000, intercept_scaling=1e4).fit(X, y)
                return np.append(m.coef_.ravel(), m.intercept_[0]) if fi else m.coef_.ravel()
        except Exception:
            return None
    return None


def exec_case(case):
    """Fit one estimator configuration and judge it.  Returns (violations, observation)."""
    import warnings
    from mc import estim, build
    X = np.array(case["X"], dtype=float)
    y = np.array(case["y"], dtype=float)
    name = case["est"]
    kw = dict(case["kw"])
    v = []
    if name == "GLE":
        import skglm
        inner = case["inner"]
        est = skglm.GeneralizedLinearEstimator(datafit=build.datafit_raw(inner["datafit"]), penalty=build.penalty_raw(inner["penalty"]),
                                               solver=build.solver(inner["solver"]))
        fi = bool(inner["solver"]["kw"].get("fit_intercept", True))
        prob = dict(datafit=inner["datafit"], penalty=inner["penalty"], X=X, y=y, fit_intercept=fi)
        spec = None
    else:
        spec = dict(name=name, kw=dict(kw, tol=TOL) if name != "SqrtLasso" else dict(kw, tol=TOL))
        if name in ("Lasso", "WeightedLasso", "ElasticNet", "MCPRegression", "GroupLasso", "MultiTaskLasso", "LinearSVC"):
            spec["kw"].update(max_iter=100, max_epochs=2000)
        if name in ("SparseLogisticRegression",):
            spec["kw"].update(max_iter=100, max_epochs=100)
        if name == "CoxEstimator":
            spec["kw"].update(max_iter=200)
        est = estim.make(spec)
        prob = estim.documented_problem(dict(name=name, kw=kw), X, y)
    try:
        with warnings.catch_warnings(record=True) as caught:
            warnings.simplefilter("always")
            est.fit(X, y)
    except Exception as e:
        return [("exception", type(e).__name__ + ": " + str(e)[:120], "fit succeeds")], None
    not_converged_warning = any("ConvergenceWarning" in type(c.message).__name__ for c in caught)
    if name == "GLE":
        coef = np.asarray(est.coef_, dtype=float).ravel()
        w = np.append(coef, float(np.ravel(est.intercept_)[0])) if fi else coef
    else:
        w = estim.fitted_w(dict(name=name, kw=kw), est)
    if not np.all(np.isfinite(w)):
        return [("non_finite", np.asarray(w).tolist(), "finite")], None
    sc = getattr(est, "stop_crit_", None)
    tol = TOL
    kind = "pn" if name in ("SparseLogisticRegression", "CoxEstimator", "SqrtLasso") else "cd"
    scale = 1.0 + float(np.abs(prob["X"]).sum()) * (1.0 + float(np.abs(prob["y"]).max()))
    converged = sc is not None and sc <= tol
    lbfgs = name == "CoxEstimator" and kw.get("l1_ratio") == 0.0      # scipy's L-BFGS-B also stops on its relative-decrease test (factr)
    if sc is not None and not converged and name != "GLE" and prob["penalty"]["name"] in RP.CONVEX and not lbfgs:
        # liveness: a convex problem with <= 6 samples and <= 5 features is solved to 1e-8 well within max_iter=100 x max_epochs=2000
        v.append(("does_not_converge_within_generous_budget", dict(stop=float(sc), coef=np.asarray(w).tolist()), f"stop_crit_ <= {tol}"))
    if converged and name != "SqrtLasso":
        viol, parts = RC.violation(prob, w, "subdiff", kind)
        if viol > tol * (1 + 1e-6) + 1e-9 * scale:
            v.append(("not_stationary_for_documented_objective", dict(stop=float(sc), violation=viol, parts=parts), f"<= {tol}"))
    if name == "LinearSVC":
        primal = (X * y[:, None]).T @ np.asarray(est.dual_coef_, dtype=float).ravel()
        if not np.allclose(primal, np.asarray(est.coef_).ravel(), rtol=1e-10, atol=1e-12):
            v.append(("coef_not_primal_image_of_dual", np.asarray(est.coef_).ravel().tolist(), primal.tolist()))
    if name == "SqrtLasso":
        # independent optimum by a scaled-lasso alternation is overkill here: use the first-order condition when the residual is non-zero
        r = y - X @ w
        if np.linalg.norm(r) > 1e-6 * (1 + np.linalg.norm(y)) and not not_converged_warning:
            viol, parts = RC.violation(prob, w, "subdiff", "pn")
            if viol > 1e-5:
                v.append(("not_stationary_for_documented_objective", dict(violation=viol), "<= 1e-5"))
    if name != "GLE" and prob["penalty"]["name"] in RP.CONVEX and (converged or name == "MultiTaskLasso"):
        ref = reference_solution(dict(name=name, kw=kw), prob)
        if ref is not None and np.all(np.isfinite(ref)):
            Fw, Fr = RC.objective(prob, w), RC.objective(prob, ref)
            nu = RC.violation(prob, w)[0] if name != "MultiTaskLasso" else 1e-6
            bound = max(nu, tol) * float(np.sum(np.abs(np.asarray(w) - ref))) + 1e-9 * (1 + abs(Fr))
            if Fw - Fr > bound:
                v.append(("worse_than_reference_optimum", Fw - Fr, f"<= {bound}"))
    return v, w


def cases_for(name, tier, chunk=None):
    if name == "GLE":
        if chunk:
            return
        for xid, X in designs(tier)[:2]:
            y = R.targets("reg", X, tier)[1][1]
            ylab = R.targets("clf", X, tier)[0][1]
            p = X.shape[1]
            for a in (0.3, 0.03):
                for fi in (True, False):
                    for inner in (
                        dict(datafit=dict(name="Quadratic"), penalty=dict(name="L1", alpha=a, positive=False), solver=dict(name="AndersonCD", kw=dict(tol=TOL, fit_intercept=fi, max_epochs=2000))),
                        dict(datafit=dict(name="Quadratic"), penalty=dict(name="MCPenalty", alpha=a, gamma=3.0, positive=False), solver=dict(name="AndersonCD", kw=dict(tol=TOL, fit_intercept=fi, max_epochs=2000))),
                        dict(datafit=dict(name="Huber", delta=1.0), penalty=dict(name="WeightedL1", alpha=a, weights=[1.0, 0.0, 2.0, 1.0, 0.5][:p], positive=False), solver=dict(name="AndersonCD", kw=dict(tol=TOL, fit_intercept=fi, max_epochs=2000))),
                        dict(datafit=dict(name="Quadratic"), penalty=dict(name="L1_plus_L2", alpha=a, l1_ratio=0.5, positive=False), solver=dict(name="ProxNewton", kw=dict(tol=TOL, fit_intercept=fi))),
                    ):
                        yield dict(est="GLE", kw={}, inner=inner, X=X.tolist(), y=y.tolist(), xid=xid)
                    inner = dict(datafit=dict(name="Logistic"), penalty=dict(name="L1", alpha=a * 0.3, positive=False), solver=dict(name="ProxNewton", kw=dict(tol=TOL, fit_intercept=fi)))
                    yield dict(est="GLE", kw={}, inner=inner, X=X.tolist(), y=ylab.tolist(), xid=xid)
        return
    for di, (xid, X) in enumerate(designs(tier)):
        if chunk is not None and di % NCHUNK != chunk:
            continue
        p = X.shape[1]
        for k in range(2):
            y = target_for(name, X, tier, k)
            if name in ("SparseLogisticRegression", "LinearSVC") and len(set(y.tolist())) < 2:
                continue
            if name == "CoxEstimator" and X.shape[0] > 8:
                continue
            for kw in grids(name, p, tier):
                yield dict(est=name, kw=kw, X=X.tolist(), y=y.tolist(), xid=xid)


def run(task, ctx):
    name = task["est"]
    n = 0
    for case in cases_for(name, ctx.tier, task.get("chunk")):
        v, w = exec_case(case)
        n += 1
        ctx.count("fits")
        ctx.obs(w, nontrivial=w is not None and bool(np.any(w)))
        if w is not None:
            ctx.count("fitted")
        for kind, got, exp in v:
            ctx.violation(f"estimator:{name}.fit", kind, dict(op="fit", case=case), got, exp,
                          where=dict(estimator=name, **{k: (val if not isinstance(val, list) else "list") for k, val in case["kw"].items()
                                                        if k in ("method", "l1_ratio", "positive", "fit_intercept")}))
        if n <= 2:
            ctx.sample({k: case[k] for k in ("est", "kw", "xid")})


def replay(params):
    from mc.core import fhex
    v, w = exec_case(params["case"])
    return dict(violated=bool(v), kinds=[x[0] for x in v], detail=fhex([[x[0], x[1], x[2]] for x in v[:5]]), w=fhex(w))


def describe(tier, agg):
    rule = ("the 11 estimators x the grid of their documented constructor arguments (alpha, l1_ratio incl. 0 and 1, C, gamma, weights "
            "incl. zeros and None, the three group formats incl. interleaved / out-of-order groups, positive, fit_intercept, method) x "
            "designs {6x3, 3x5, duplicated column, orthogonal} x 2 targets (survival targets with ties among uncensored samples); "
            "oracle: stationarity for the objective written from the docstring whenever stop_crit_ <= tol, LinearSVC primal/dual "
            "relation, optimality-gap theorem against scikit-learn in convex cases; distinct = distinct non-zero solutions")
    return rule, {"fits": 500, "fitted": 400}
