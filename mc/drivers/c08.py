"""C08 — the distance-to-subdifferential score is sound (engine P, full product)."""
import itertools

import numpy as np

from mc.drivers import c07
from mc.ref import pen as RP
from mc.ref import prox as RX

PROPERTY = "C08"
LEVEL = "exploration"
ASSUMPTIONS = [
    "reference = regular (Frechet) subdifferential of the documented value function built from closed-form "
    "one-sided derivatives (self-tested against finite differences in ./check selftest)",
    "IndicatorBox is only evaluated at feasible points (the statement covers feasible points and positivity)",
]
RTOL = 1e-10


def close(a, b, scale=1.0):
    if a == b:
        return True
    if not (np.isfinite(a) and np.isfinite(b)):
        return False
    return abs(a - b) <= RTOL * max(1.0, abs(a), abs(b), scale)


def w_points(spec, j):
    n = spec["name"]
    a = spec.get("alpha", 1.0)
    pts = {0.0, 0.3 * a, 0.9 * a, 1.7 * a, 5.0 * a, 1e-9, 1e-300, 40.0}
    ks = RX._kinks(spec, 1.0, j)
    for k in ks:
        pts |= {k, float(np.nextafter(k, np.inf)), float(np.nextafter(k, -np.inf)), k + 1e-9, k - 1e-9}
    if n in ("MCPenalty", "WeightedMCPenalty", "BlockMCPenalty") and spec["gamma"] < 1e3:
        pts |= {0.5 * a * spec["gamma"], 1.5 * a * spec["gamma"]}
    if n in ("SCAD", "BlockSCAD") and spec["gamma"] < 1e3:
        pts |= {0.5 * a * (1 + spec["gamma"]), 1.5 * a * spec["gamma"]}
    pts = {abs(p) for p in pts}
    out = sorted(pts | {-p for p in pts})
    if n == "IndicatorBox":
        out = [p for p in out if p <= a]          # w > alpha is not a positivity violation: not judged
    return out


def g_points(spec, j, wv):
    a = spec.get("alpha", 1.0)
    w = RP._w(spec, j)
    base = {0.0, 0.1, -0.1, 1.0, -1.0, 5.0, -5.0, a * w, -a * w, 2 * a * w, -2 * a * w}
    iv = RP.subdiff_interval(spec, wv, j)
    if iv is not None:
        for e in iv:
            if np.isfinite(e):
                base |= {-e, float(np.nextafter(-e, np.inf)), float(np.nextafter(-e, -np.inf)), -e + 1e-3, -e - 1e-3}
    return sorted(base)


def scalar_specs(tier):
    sp = c07.scalar_specs(tier)
    return sp


def plan(tier, seed):
    tasks = [dict(op="scalar", cls=c, weight=3) for c in scalar_specs(tier)]
    tasks += [dict(op="row", cls=c, weight=2) for c in RP.ROW]
    tasks += [dict(op="group", cls="WeightedGroupL2", weight=3)]
    tasks += [dict(op="fixscore", cls=c, weight=2) for c in ("scalar", "group", "row")]
    return tasks


# -------------------------------------------------------------------------------- fixed-point scores of the solvers

def ordered_subsets(n, kmax):
    for k in range(1, kmax + 1):
        yield from itertools.permutations(range(n), k)


def fix_eval(params):
    """The library's fixed-point score on a working set (any subset, any order) vs |w_B - prox_B(w_B - grad_B / L_B)| recomputed with the
    penalty's own prox called with the *feature / group / row* index (the prox itself is C07's business).  Returns (violations, dist)."""
    from mc import build
    from skglm.solvers.common import dist_fix_point_cd, dist_fix_point_bcd
    from skglm.solvers.multitask_bcd import dist_fix_point_bcd as dist_fix_point_rows
    spec, kind, ws = params["spec"], params["kind"], np.array(params["ws"], dtype=np.int64)
    p = build.penalty(spec)
    d = build.datafit(dict(name="Quadratic"))
    w = np.array(params["w"], dtype=float)
    lips = np.array(params["lips"], dtype=float)
    out = []
    if kind == "scalar":
        grad = np.array(params["grad"], dtype=float)
        got = np.asarray(dist_fix_point_cd(w, grad, lips, d, p, ws), dtype=float)
        exp = np.zeros(len(ws))
        for idx, j in enumerate(ws):
            st = 1.0 / lips[idx] if lips[idx] != 0 else 1000.0
            exp[idx] = abs(w[j] - p.prox_1d(w[j] - st * grad[idx], st, j))
    elif kind == "group":
        groups = RP.groups_of(spec)
        grad = np.array(params["grad"], dtype=float)
        got = np.asarray(dist_fix_point_bcd(w, grad, lips, d, p, ws), dtype=float)[:len(ws)]
        exp, ptr = np.zeros(len(ws)), 0
        for idx, g in enumerate(ws):
            ind = np.array(groups[g])
            gg = grad[ptr:ptr + len(ind)]
            ptr += len(ind)
            st = 1.0 / lips[idx] if lips[idx] != 0 else 1000.0
            exp[idx] = RP.norm2(w[ind] - p.prox_1group(w[ind] - st * gg, st, g))
    else:
        grad = np.array(params["grad"], dtype=float)
        got = np.asarray(dist_fix_point_rows(w, grad, lips, d, p, ws), dtype=float)
        exp = np.zeros(len(ws))
        for idx, j in enumerate(ws):
            st = 1.0 / lips[idx] if lips[idx] != 0 else 1000.0
            exp[idx] = RP.norm2(w[j] - p.prox_1feat(w[j] - st * grad[idx], st, j))
    if got.shape != exp.shape or not np.allclose(got, exp, rtol=1e-12, atol=1e-14, equal_nan=True):
        out.append(("fixed_point_score_differs_from_prox_residual", got.tolist(), exp.tolist()))
    return out, got


def run_fixscore(ctx, which, tier):
    GV = (0.3, -1.5, 0.0, 2.0, -0.2, 0.7)
    LV = (2.0, 0.5, 0.0, 1.0, 4.0, 0.25)
    if which == "scalar":
        specs = [s for cls, ss in scalar_specs(tier).items() for s in ss if cls in ("L1", "WeightedL1", "MCPenalty", "WeightedMCPenalty", "L1_plus_L2", "SCAD", "IndicatorBox")]
        specs = [s for s in specs if s.get("alpha", 1.0) in (0.5, 1.0, 1.5)][:40]
    elif which == "group":
        specs = c07.group_specs(tier) + c07.sparse_group_specs(tier)
    else:
        specs = [s for cls in RP.ROW for s in c07.row_specs(cls, tier)[:2]]
    for spec in specs:
        if which == "scalar":
            P = len(spec["weights"]) if "weights" in spec else 4
            wvecs = [np.array([0.0, 1.0, -0.4, 2.5, 0.0, -3.0][:P]), np.array([0.7, 0.0, 0.0, -1e-3, 1.0, 0.2][:P])]
            sets = list(ordered_subsets(P, min(P, 3))) + [tuple(range(P))[::-1]]
        elif which == "group":
            G = len(spec["grp_ptr"]) - 1
            P = len(spec["grp_indices"])
            wvecs = [np.array([0.0, 1.0, -0.4, 2.5, 0.0, -3.0][:P]), np.array([0.7, 0.0, 0.0, 0.0, 1.0, 0.2][:P])]
            sets = list(ordered_subsets(G, G))
        else:
            P = 4
            wvecs = [np.array([[0.0, 0.0], [1.0, -2.0], [0.0, 0.3], [-0.5, 0.5]]), np.array([[0.7, 0.1], [0.0, 0.0], [2.0, 2.0], [0.0, -1e-3]])]
            sets = list(ordered_subsets(P, 3)) + [(3, 2, 1, 0)]
        if which == "scalar" and spec["name"] == "IndicatorBox":
            wvecs = [np.clip(np.abs(w), 0, spec["alpha"]) for w in wvecs]
        if spec.get("positive"):
            wvecs = [np.abs(w) for w in wvecs]
        for w in wvecs:
            for ws in sets:
                LVs = LV if spec["name"] in RP.CONVEX or which == "scalar" else (2.0, 1.0, 4.0)      # block non-convex proxes: admissible steps only
                lips = [LVs[(i + ws[0]) % len(LVs)] for i in range(len(ws))]
                if which == "group":
                    sizes = [len(RP.groups_of(spec)[g]) for g in ws]
                    grad = [GV[(k + ws[0]) % len(GV)] for k in range(sum(sizes))]
                elif which == "row":
                    grad = [[GV[(i + ws[0]) % len(GV)], GV[(i + 2 * ws[0] + 1) % len(GV)]] for i in range(len(ws))]
                else:
                    grad = [GV[(i + ws[0]) % len(GV)] for i in range(len(ws))]
                params = dict(op="fixscore", kind=which, spec=spec, w=w.tolist(), ws=list(ws), lips=lips, grad=grad)
                try:
                    v, got = fix_eval(params)
                except Exception as e:
                    v, got = [("exception", type(e).__name__ + ": " + str(e)[:100], "a score")], None
                ctx.count("fixscore_checked")
                ctx.obs(got, nontrivial=got is not None and bool(np.any(got)))
                for kind_, obs, exp in v:
                    ctx.violation(f"solver:dist_fix_point.{which}", kind_, params, obs, exp, where=dict(penalty=spec["name"], kind=which))
        ctx.sample(dict(op="fixscore", kind=which, spec=spec, working_sets=len(sets)))


# -------------------------------------------------------------------------------- scalar clauses

def eval_scalar(p, spec, j, wv, gv, P):
    """All clauses at one (w_j, g_j).  Returns list of (kind, observed, expected)."""
    out = []
    name = spec["name"]
    base = np.zeros(P)
    base[j] = wv
    other = (j + 2) % P
    ws = np.array([other, j], dtype=np.int64)        # permuted working set: idx != j
    grad = np.array([0.25, gv])
    try:
        sc = p.subdiff_distance(base, grad, ws)
    except Exception as e:
        return [("exception", type(e).__name__, None)], None
    got = float(sc[1])
    lo, hi = RP.bounds(spec)
    feasible = lo <= wv <= hi
    exp = RP.dist_interval(-gv, RP.subdiff_interval(spec, wv, j))
    if not feasible and (spec.get("positive") or name in ("PositiveConstraint", "IndicatorBox")):
        if got != np.inf:
            out.append(("not_inf_at_infeasible", got, "inf"))
    elif feasible and not close(got, exp, abs(gv)):
        out.append(("score_mismatch", got, exp))
    # the other working-set entry sits at w = 0 with gradient 0.25
    exp0 = RP.dist_interval(-0.25, RP.subdiff_interval(spec, 0.0, other))
    if not close(float(sc[0]), exp0):
        out.append(("score_mismatch_ws_order", float(sc[0]), exp0))
    # (v) features flagged as unpenalised add nothing to the value
    if feasible and hasattr(p, "is_penalized") and not bool(p.is_penalized(P)[j]):
        v = float(p.value(base))
        if v != 0.0:
            out.append(("unpenalized_has_value", v, 0.0))
    return out, got


def eval_prox_consistency(p, spec, j, x, s, P):
    """(iii) u = prox(x); g = (u - x)/s  =>  score(u, g) == 0 (up to the rounding of g)."""
    u = p.prox_1d(float(x), float(s), int(j))
    base = np.zeros(P)
    base[j] = u
    g = (u - x) / s
    sc = float(p.subdiff_distance(base, np.array([g]), np.array([j], dtype=np.int64))[0])
    tol = 1e-6 * (1 + abs(g) + abs(x) / s)   # rounding of closed forms (huge gamma, bisection, trigonometric)
    return sc, tol, u


def eval_converse(p, spec, j, wv, gv, s, P):
    """(iv) convex: score(w, g) == 0  =>  prox(w - s g, s) == w."""
    u = p.prox_1d(float(wv - s * gv), float(s), int(j))
    return u


def run(task, ctx):
    from mc import build
    tier = ctx.tier
    op, cls = task["op"], task["cls"]
    if op == "fixscore":
        return run_fixscore(ctx, cls, tier)
    if op == "scalar":
        for spec in scalar_specs(tier)[cls]:
            p = build.penalty(spec)
            P = len(spec["weights"]) if "weights" in spec else 5
            name = spec["name"]
            site = f"penalty:{name}.subdiff_distance"
            for j in range(P if "weights" in spec else 1):
                for wv in w_points(spec, j):
                    for gv in g_points(spec, j, wv):
                        res, got = eval_scalar(p, spec, j, wv, gv, P)
                        params = dict(op="scalar", spec=spec, j=j, w=float(wv).hex(), g=float(gv).hex(), P=P)
                        for kind, obs, exp in res:
                            ctx.violation(site, kind, params, obs, exp,
                                          where=dict(penalty=name, positive=bool(spec.get("positive"))))
                        ctx.obs(got, nontrivial=(got is not None and got != 0 and np.isfinite(got)))
                        if got == 0:
                            ctx.count("score_zero")
                            if name in RP.CONVEX:
                                for s in (0.5, 2.0):
                                    u = eval_converse(p, spec, j, wv, gv, s, P)
                                    ctx.obs(u, nontrivial=False)
                                    ctx.count("converse_checked")
                                    if not close(u, wv, abs(s * gv)):
                                        ctx.violation(f"penalty:{name}.prox_vs_score", "zero_score_not_fixed_point",
                                                      dict(params, op="converse", s=s), u, wv,
                                                      where=dict(penalty=name, positive=bool(spec.get("positive"))))
                        if got == np.inf:
                            ctx.count("score_inf")
                # (iii)
                for s in c07.steps_for(spec, j, tier):
                    for x in c07.x_grid(spec, s, j, "quick")[::3]:
                        try:
                            sc, tol, u = eval_prox_consistency(p, spec, j, x, s, P)
                        except Exception as e:
                            ctx.violation(site, "exception", dict(op="proxfix", spec=spec, j=j, s=s, x=float(x).hex(), P=P),
                                          type(e).__name__, where=dict(penalty=name, positive=bool(spec.get("positive"))))
                            continue
                        ctx.obs(sc, u, nontrivial=(u != 0))
                        ctx.count("proxfix_checked")
                        if not (sc <= tol):
                            ctx.violation(f"penalty:{name}.prox_vs_score", "prox_image_not_stationary",
                                          dict(op="proxfix", spec=spec, j=j, s=s, x=float(x).hex(), P=P), sc, f"<= {tol}",
                                          where=dict(penalty=name, positive=bool(spec.get("positive"))))
            ctx.sample(dict(op="scalar", spec=spec, w_points=len(w_points(spec, 0))))
    elif op == "row":
        for spec in c07.row_specs(cls, tier):
            run_blocks(ctx, build.penalty(spec), spec, rows=True)
    elif op == "group":
        for spec in c07.group_specs(tier):
            run_blocks(ctx, build.penalty(spec), spec, rows=False)


def block_points(spec, j, m):
    vs = [np.array(v, dtype=float) for v in c07.BLOCK_VECS[m]]
    a = spec.get("alpha", 1.0)
    for k in RX._kinks(spec, 1.0, j):
        if k > 0:
            for d in (np.eye(m)[0], np.ones(m) / np.sqrt(m)):
                vs += [k * d, (k + 1e-9) * d, (k - 1e-9) * d]
    vs.append(np.full(m, 1e-200))
    return vs


def eval_block(p, spec, rows, layout, g, t, gr):
    """score of one block (row j=g of W, or group g of w) vs reference."""
    if rows:
        W = np.zeros((4, len(t)))
        W[g] = t
        ws = np.array([3 - g if 3 - g != g else (g + 1) % 4, g], dtype=np.int64)
        grad = np.zeros((2, len(t)))
        grad[1] = gr
        grad[0] = 0.25
        sc = p.subdiff_distance(W, grad, ws)
        exp0 = RP.subdiff_distance_block(spec, np.zeros(len(t)), grad[0], ws[0])
    else:
        groups = RP.groups_of(spec)
        w = np.zeros(6)
        w[groups[g]] = t
        og = (g + 1) % len(groups)
        ws = np.array([og, g], dtype=np.int64)
        grad = np.concatenate([np.full(len(groups[og]), 0.25), gr])
        sc = p.subdiff_distance(w, grad, ws)
        exp0 = RP.subdiff_distance_block(spec, np.zeros(len(groups[og])), np.full(len(groups[og]), 0.25), og)
    exp = RP.subdiff_distance_block(spec, t, gr, g)
    return float(sc[1]), exp, float(sc[0]), exp0


def run_blocks(ctx, p, spec, rows):
    name = spec["name"]
    site = f"penalty:{name}.subdiff_distance"
    where = dict(penalty=name, positive=bool(spec.get("positive")))
    blocks = [(g, 2) for g in range(2)] + [(0, 1), (1, 3)] if rows else [(g, len(ix)) for g, ix in enumerate(RP.groups_of(spec))]
    for g, m in blocks:
        for t in block_points(spec, g, m):
            grs = [np.array(v, dtype=float) for v in c07.BLOCK_VECS[m]]
            r = np.linalg.norm(t)
            if r > 0 and not (spec.get("positive") and np.any(t < 0)):
                d = RP.dradial(spec, r, g)
                if np.isfinite(d):
                    grs.append(-d * t / r)            # exactly stationary
            else:
                d0 = RP.dradial(spec, 0.0, g)
                if np.isfinite(d0):
                    grs += [d0 * np.eye(m)[0], (d0 + 1e-3) * np.eye(m)[0], -(d0 - 1e-3) * np.ones(m) / np.sqrt(m)]
            for gr in grs:
                params = dict(op="block", rows=rows, spec=spec, g=g, t=[float(v).hex() for v in t],
                              gr=[float(v).hex() for v in gr])
                try:
                    got, exp, got0, exp0 = eval_block(p, spec, rows, None, g, t, gr)
                except Exception as e:
                    ctx.violation(site, "exception", params, type(e).__name__, where=where)
                    continue
                ctx.obs(got, nontrivial=(got != 0 and np.isfinite(got)))
                if got == 0:
                    ctx.count("score_zero")
                if not close(got, exp, float(np.linalg.norm(gr))):
                    ctx.violation(site, "score_mismatch", params, got, exp, where=where)
                if not close(got0, exp0):
                    ctx.violation(site, "score_mismatch_ws_order", params, got0, exp0, where=where)
        # (iii) prox image is stationary
        fn = p.prox_1feat if rows else p.prox_1group
        for s in c07.steps_for(spec, g, "quick"):
            for x in c07.block_inputs(spec, s, g, m):
                try:
                    u = fn(x.copy(), float(s), g)
                    if not np.all(np.isfinite(u)):
                        continue              # C07's business
                    gr = (u - x) / s
                    got, exp, _, _ = eval_block(p, spec, rows, None, g, u, gr)
                except Exception as e:
                    ctx.violation(site, "exception", dict(op="blockfix", rows=rows, spec=spec, g=g, s=s,
                                                          x=[float(v).hex() for v in x]), type(e).__name__, where=where)
                    continue
                ctx.count("proxfix_checked")
                ctx.obs(got, u, nontrivial=bool(np.any(u)))
                tol = 1e-6 * (1 + float(np.linalg.norm(gr)) + float(np.linalg.norm(x)) / s)
                if not (got <= tol):
                    ctx.violation(f"penalty:{name}.prox_vs_score", "prox_image_not_stationary",
                                  dict(op="blockfix", rows=rows, spec=spec, g=g, s=s, x=[float(v).hex() for v in x]),
                                  got, f"<= {tol}", where=where)
    ctx.sample(dict(op="block", spec=spec))


def replay(params):
    from mc import build
    from mc.core import Ctx, fhex
    if params["op"] == "fixscore":
        try:
            v, got = fix_eval(params)
        except Exception as e:
            v, got = [("exception", type(e).__name__ + ": " + str(e)[:100], "a score")], None
        return dict(violated=bool(v), kinds=[x[0] for x in v], detail=fhex([[x[0], x[1], x[2]] for x in v[:3]]), score=fhex(got))
    spec = params["spec"]
    p = build.penalty(spec)
    op = params["op"]
    name = spec["name"]
    kinds, detail = [], {}
    if op in ("scalar", "converse"):
        wv, gv = float.fromhex(params["w"]), float.fromhex(params["g"])
        res, got = eval_scalar(p, spec, params["j"], wv, gv, params["P"])
        kinds = [k for k, _, _ in res]
        detail = dict(score=fhex(got), results=fhex([list(r) for r in res]))
        if op == "converse":
            u = eval_converse(p, spec, params["j"], wv, gv, params["s"], params["P"])
            if not close(u, wv, abs(params["s"] * gv)):
                kinds.append("zero_score_not_fixed_point")
            detail["prox"] = fhex(u)
    elif op == "proxfix":
        try:
            sc, tol, u = eval_prox_consistency(p, spec, params["j"], float.fromhex(params["x"]), params["s"], params["P"])
            if not sc <= tol:
                kinds.append("prox_image_not_stationary")
            detail = dict(score=fhex(sc), prox=fhex(u))
        except Exception as e:
            kinds.append("exception")
            detail = dict(exc=type(e).__name__)
    elif op == "block":
        t = np.array([float.fromhex(v) for v in params["t"]])
        gr = np.array([float.fromhex(v) for v in params["gr"]])
        try:
            got, exp, got0, exp0 = eval_block(p, spec, params["rows"], None, params["g"], t, gr)
            if not close(got, exp, float(np.linalg.norm(gr))):
                kinds.append("score_mismatch")
            if not close(got0, exp0):
                kinds.append("score_mismatch_ws_order")
            detail = dict(score=fhex(got), expected=fhex(exp))
        except Exception as e:
            kinds.append("exception")
            detail = dict(exc=type(e).__name__)
    elif op == "blockfix":
        x = np.array([float.fromhex(v) for v in params["x"]])
        fn = p.prox_1feat if params["rows"] else p.prox_1group
        try:
            u = fn(x.copy(), float(params["s"]), params["g"])
            gr = (u - x) / params["s"]
            got, exp, _, _ = eval_block(p, spec, params["rows"], None, params["g"], u, gr)
            tol = 1e-6 * (1 + float(np.linalg.norm(gr)) + float(np.linalg.norm(x)) / params["s"])
            if not got <= tol:
                kinds.append("prox_image_not_stationary")
            detail = dict(score=fhex(got), prox=fhex(u))
        except Exception as e:
            kinds.append("exception")
            detail = dict(exc=type(e).__name__)
    return dict(violated=bool(kinds), kinds=kinds, **detail)


def describe(tier, agg):
    rule = ("full product per penalty class: hyper grid of C07 x coordinates j (distinct weights, zero weight incl.) x "
            "w in {0, kinks, kinks +-1ulp/+-1e-9, region interiors, 1e-300, infeasible negatives} x grad in {fixed grid, "
            "-(interval ends of the reference subdifferential) +-{0,1ulp,1e-3}}; working set passed permuted (idx != j); "
            "clauses: score == reference distance, inf at positivity violations, prox image has score 0, score 0 => prox "
            "fixed point (convex), unpenalised => no value; blocks: {-2,-.5,0,.5,2}^m m<=3 + kink-norm vectors x same gradient set + exact stationary "
            "gradient; the solvers' fixed-point scores (dist_fix_point_cd / _bcd for groups / _bcd for rows) on every ordered working set of "
            "<= 3 features / rows and every ordered set of groups vs the prox residual with the feature / group index; "
            "distinct = distinct finite non-zero scores")
    return rule, {"score_zero": 50, "score_inf": 10, "proxfix_checked": 500, "converse_checked": 50, "fixscore_checked": 3000}
