"""C05 — warm starts and regularisation paths solve the problem they are asked (engine H: BFS over histories)."""
import itertools

import numpy as np

from mc import alphabet as A
from mc import registry as R
from mc.drivers import c01
from mc.ref import cert as RC
from mc.ref import pen as RP

PROPERTY = "C05"
LEVEL = "model_checking"
ASSUMPTIONS = [
    "states of the solver-level search are (w buffer, Xw buffer, current alpha) by value: solve() reads nothing else that persists, "
    "so histories reaching equal triples are merged; estimator states are rebuilt by replaying the history on a fresh estimator",
    "after every operation: certificate of the *current* problem when convergence is claimed (mc/ref/cert.py), caller's "
    "Xw buffer == X w + b, and for convex problems the optimality-gap theorem F(w_hist) - F(w_cold) <= violation * ||.||_1 "
    "against the cold-start solution of the same problem",
    "warm-start coefficient sets are finite (see registry.starts) and include supports larger and smaller than the working set "
    "and a zero-support start with a non-zero intercept",
]
FRACS = (0.5, 0.2, 0.05, 1.2)


def solver_cases(tier):
    """(solver spec, datafit name, penalty key, storage)."""
    out = []
    for p0 in (10, 1):
        for fi in (True, False):
            out.append((dict(name="AndersonCD", kw=dict(p0=p0, fit_intercept=fi, max_epochs=1000, tol=1e-8)), "Quadratic", "L1", "denseF"))
    out.append((dict(name="AndersonCD", kw=dict(p0=1, fit_intercept=True, max_epochs=1000, tol=1e-8)), "Quadratic", "WeightedL1", "denseF"))
    out.append((dict(name="AndersonCD", kw=dict(p0=2, fit_intercept=False, max_epochs=1000, tol=1e-8)), "Quadratic", "WeightedL1", "csc"))
    out.append((dict(name="AndersonCD", kw=dict(p0=1, fit_intercept=True, max_epochs=1000, tol=1e-8, ws_strategy="fixpoint")), "Quadratic", "L1_plus_L2", "denseF"))
    out.append((dict(name="AndersonCD", kw=dict(p0=10, fit_intercept=True, max_epochs=1000, tol=1e-8)), "Quadratic", "MCPenalty", "denseF"))
    out.append((dict(name="AndersonCD", kw=dict(p0=2, fit_intercept=True, max_epochs=1000, tol=1e-8)), "Logistic", "L1", "denseF"))
    out.append((dict(name="ProxNewton", kw=dict(p0=1, fit_intercept=True, max_pn_iter=100, tol=1e-8)), "Logistic", "L1", "denseF"))
    out.append((dict(name="ProxNewton", kw=dict(p0=10, fit_intercept=False, max_pn_iter=100, tol=1e-8)), "Logistic", "L1", "csc"))
    out.append((dict(name="GroupBCD", kw=dict(p0=1, fit_intercept=True, max_iter=200, tol=1e-8)), "QuadraticGroup", "WeightedGroupL2", "denseF"))
    out.append((dict(name="GroupBCD", kw=dict(p0=10, fit_intercept=False, max_iter=200, tol=1e-8)), "QuadraticGroup", "WeightedGroupL2", "csc"))
    out.append((dict(name="MultiTaskBCD", kw=dict(p0=1, fit_intercept=True, max_epochs=1000, tol=1e-8)), "QuadraticMultiTask", "L2_1", "denseF"))
    out.append((dict(name="GramCD", kw=dict(tol=1e-8, greedy_cd=False, use_acc=True)), None, "L1", "denseF"))
    return out


def plan(tier, seed):
    tasks = [dict(op="solve_hist", case=i, weight=4) for i in range(len(solver_cases(tier)))]
    tasks += [dict(op="path", case=i, weight=3) for i in range(len(path_cases(tier)))]
    tasks += [dict(op="estimator", est=e, weight=4) for e in EST_SPECS]
    tasks += [dict(op="sqrt_path", weight=2)]
    tasks += [dict(op="est_path", est=e, weight=3) for e in EST_PATH]
    tasks += [dict(op="acc_buffers", solver=sn, part=k, weight=3) for sn in ("AndersonCD", "GroupBCD", "MultiTaskBCD") for k in range(2)]
    tasks += [dict(op="acc_buffers", solver="AndersonCD-default", part=k, weight=3) for k in range(2)]
    return tasks


# ---------------------------------------------------------------------------------- (a) solve histories

def problems(dn, tier):
    designs = [("tall6x3", A.G_TALL), ("wide3x5", A.G_WIDE), ("dup", A.K()["dup"])]
    if tier != "quick":
        designs += [("sq4x4", A.G_SQ), ("wide-zeromid", A.Z()["wide3x5-zeromid"])]
    for xid, X in designs:
        y = R.targets(R.KIND[dn], X, tier)[-1][1]
        yield xid, X, y


class Live:
    """Persistent objects of one history: the caller's buffers and one compiled penalty whose alpha is re-assigned."""

    def __init__(self, sspec, dspec, pspec, X, y, storage, start=None):
        from mc import build, comp as C
        self.comp0 = dict(solver=sspec, datafit=dspec, penalty=pspec, X=X.tolist(), y=y.tolist(), storage=storage)
        self.prob = C.problem_of(self.comp0)
        self.X = build.storage(self.prob["X"], storage)
        self.y = np.asfortranarray(self.prob["y"]) if self.prob["y"].ndim == 2 else self.prob["y"].copy()
        self.solver = build.solver(sspec)
        self.datafit = build.datafit(dspec)
        self.penalty = build.penalty(pspec)
        p = self.prob["X"].shape[1]
        fi = self.prob["fit_intercept"]
        T = self.y.shape[1] if (dspec or {}).get("name") == "QuadraticMultiTask" else 0
        self.w = np.zeros((p + fi, T)) if T else np.zeros(p + fi)
        if start is not None:
            self.w[...] = np.asarray(start, dtype=float)
        self.Xw = RC.linear_predictor(self.prob, self.w)
        if self.Xw.ndim == 2:
            self.Xw = np.asfortranarray(self.Xw)

    def solve(self, alpha):
        from mc import build
        from mc.core import derive_seed
        self.penalty.alpha = alpha
        build.seed_numba(derive_seed("solve", self.comp0["solver"]["name"], self.comp0["datafit"], self.comp0["storage"], self.comp0["X"]))
        if self.solver.__class__.__name__ == "GramCD":
            out = self.solver.solve(self.X, self.y, None, self.penalty, self.w, None)
        else:
            out = self.solver.solve(self.X, self.y, self.datafit, self.penalty, self.w, self.Xw)
        return out

    def state(self):
        return (self.w.tobytes(), self.Xw.tobytes(), float(self.penalty.alpha))


def check_after(live, alpha, out, cold):
    """Oracle after one solve of the history.  Returns list of (kind, observed, expected)."""
    from mc import comp as C
    res = []
    w_ret, hist, sc = out
    pspec = dict(live.comp0["penalty"], alpha=alpha)
    prob = dict(live.prob, penalty=pspec)
    sname = live.comp0["solver"]["name"]
    tol = C.tol_of(live.comp0["solver"])
    w_ret = np.asarray(w_ret, dtype=float)
    if w_ret is not live.w and not np.array_equal(w_ret, live.w):
        res.append(("returned_w_differs_from_buffer", float(np.max(np.abs(w_ret - live.w))), 0.0))
    if not np.all(np.isfinite(w_ret)):
        return res + [("non_finite", w_ret.tolist(), "finite")]
    if sname != "GramCD":
        u = RC.linear_predictor(prob, w_ret)
        err = float(np.max(np.abs(u - live.Xw)))
        scale = 1.0 + float(np.abs(prob["X"]).sum()) * (1.0 + float(np.max(np.abs(w_ret))))
        if err > 1e-9 * scale:
            res.append(("fit_buffer_inconsistent", err, "Xw == X w + b"))
    if sc <= tol:
        strat = C.strategy_of(live.comp0["solver"])
        viol, parts = RC.violation(prob, w_ret, strat, "pn" if sname in C.PN_KIND else "cd")
        scale = 1.0 + float(np.abs(prob["X"]).sum()) * (1.0 + float(np.abs(prob["y"]).max()))
        bound = tol * (1 + 1e-6) + 1e-10 * scale
        if viol > bound:
            res.append(("certificate_invalid", dict(stop=float(sc), recomputed=viol), f"<= {bound}"))
        if pspec["name"] in RP.CONVEX and cold is not None:
            from mc import estim
            ok, gap, bnd = estim.gap_ok(prob, w_ret, cold)
            if not ok:
                res.append(("worse_than_cold_start", gap, f"<= {bnd}"))
    return res


def run_solve_hist(task, ctx):
    from mc import comp as C
    tier = ctx.tier
    sspec, dn, pk, storage = solver_cases(tier)[task["case"]]
    depth = 3 if tier == "quick" else 4
    for xid, X, y in problems(dn, tier):
        for dspec in R.datafit_specs(dn, X, tier)[:1]:
            fi = C.fit_intercept_of(sspec)
            pens = R.penalty_specs(pk, dspec, X, y, fi, tier, fracs=(1.0,))
            if not pens:
                continue
            p0spec = pens[0]
            a0 = p0spec["alpha"]
            alphas = [f * a0 for f in FRACS]
            dsp = {k: v for k, v in dspec.items() if k != "layout"} if dspec else None
            T = y.shape[1] if dn == "QuadraticMultiTask" else 0
            starts = [None] + R.starts(X.shape[1], fi, "thorough", T)[:3]
            if fi and not T:
                z = np.zeros(X.shape[1] + 1)
                z[-1] = 1.5
                starts.append(z)             # empty support, non-zero intercept
            # cold-start references (one fresh solve per alpha)
            cold = {}
            for a in alphas:
                lv = Live(sspec, dsp, dict(p0spec, alpha=a), X, y, storage)
                try:
                    out = lv.solve(a)
                    cold[a] = np.array(out[0]) if out[2] <= C.tol_of(sspec) else None
                except Exception:
                    cold[a] = None
            for s_i, start in enumerate(starts):
                seen = set()
                frontier = [()]
                for d in range(depth):
                    nxt = []
                    for hist in frontier:
                        for a in alphas:
                            h2 = hist + (a,)
                            lv = Live(sspec, dsp, dict(p0spec, alpha=alphas[0]), X, y, storage, start)
                            failed = None
                            try:
                                for b in h2[:-1]:
                                    lv.solve(b)
                                out = lv.solve(a)
                            except Exception as e:
                                failed = type(e).__name__ + ": " + str(e)[:100]
                            ctx.transitions += 1
                            params = dict(op="solve_hist", case=task["case"], xid=xid, start=None if start is None else np.asarray(start).tolist(),
                                          history=list(h2))
                            if failed:
                                ctx.count("exceptions")
                                ctx.violation(f"solver:{sspec['name']}.history", "exception", params, failed, "solve succeeds",
                                              where=dict(solver=sspec["name"], penalty=p0spec["name"]))
                                continue
                            for kind, got, exp in check_after(lv, a, out, cold.get(a)):
                                ctx.violation(f"solver:{sspec['name']}.history", kind, params, got, exp,
                                              where=dict(solver=sspec["name"], penalty=p0spec["name"], warm=start is not None,
                                                         zero_support_start=bool(start is not None and not np.any(np.asarray(start)[:X.shape[1]]))))
                            ctx.obs(out[0], out[2], nontrivial=bool(np.any(out[0])))
                            if out[2] <= C.tol_of(sspec):
                                ctx.count("converged_ops")
                            k = lv.state()
                            if k not in seen:
                                seen.add(k)
                                nxt.append(h2)
                    frontier = nxt
                ctx.states += len(seen)
                ctx.count("closure_reached" if not frontier else "depth_bound_reached")
            ctx.sample(dict(op="solve_hist", solver=sspec, datafit=dn, penalty=p0spec, xid=xid, alphas=alphas, depth=depth))


# ---------------------------------------------------------------------------------- (b) path()

def path_cases(tier):
    out = []
    for fi in (True, False):
        out.append(("AndersonCD", dict(fit_intercept=fi, tol=1e-8, max_epochs=1000, p0=2), "Quadratic", "L1", "denseF"))
    out.append(("AndersonCD", dict(fit_intercept=True, tol=1e-8, max_epochs=1000, p0=1), "Quadratic", "WeightedL1", "csc"))
    out.append(("AndersonCD", dict(fit_intercept=True, tol=1e-8, max_epochs=1000), "Logistic", "L1", "denseF"))
    out.append(("MultiTaskBCD", dict(fit_intercept=False, tol=1e-8, max_epochs=1000), "QuadraticMultiTask", "L2_1", "denseF"))
    out.append(("MultiTaskBCD", dict(fit_intercept=True, tol=1e-8, max_epochs=1000), "QuadraticMultiTask", "L2_1", "denseF"))
    return out


def exec_path(params):
    """One path() call on fresh objects.  Returns list of violations."""
    from mc import build, comp as C
    sname, skw, dn, storage = params["solver"], params["kw"], params["datafit"], params["storage"]
    X = np.array(params["X"], dtype=float)
    y = np.array(params["y"], dtype=float)
    pspec = params["penalty"]
    grid = params["grid"]
    sspec = dict(name=sname, kw=skw)
    comp = dict(solver=sspec, datafit=params["dspec"], penalty=pspec, X=params["X"], y=params["y"], storage=storage)
    prob = C.problem_of(comp)
    Xs = build.storage(prob["X"], storage)
    solver = build.solver(sspec)
    out = []
    w_init = None if params.get("w_init") is None else np.array(params["w_init"], dtype=float)
    try:
        res = solver.path(Xs, np.asfortranarray(y) if y.ndim == 2 else y, build.datafit(params["dspec"]), build.penalty(pspec),
                          np.array(grid), w_init, True)
    except Exception as e:
        return [("exception", type(e).__name__ + ": " + str(e)[:120], "path succeeds")], None
    alphas, coefs, stops, n_iters = res
    fi = prob["fit_intercept"]
    p = prob["X"].shape[1]
    mt = sname == "MultiTaskBCD"
    exp_shape = (y.shape[1], p + fi, len(grid)) if mt else (p + fi, len(grid))
    if tuple(coefs.shape) != exp_shape:
        return [("path_shape", list(coefs.shape), list(exp_shape))], None
    if len(stops) != len(grid) or len(n_iters) != len(grid):
        out.append(("path_lengths", [len(stops), len(n_iters)], len(grid)))
    tol = C.tol_of(sspec)
    for t, a in enumerate(grid):
        w = coefs[:, :, t].T if mt else coefs[:, t]
        pr = dict(prob, penalty=dict(pspec, alpha=a))
        if not np.all(np.isfinite(w)):
            out.append(("non_finite", np.asarray(w).tolist(), "finite"))
            continue
        if stops[t] <= tol:
            viol, _ = RC.violation(pr, w, C.strategy_of(sspec), "cd")
            scale = 1.0 + float(np.abs(pr["X"]).sum()) * (1.0 + float(np.abs(pr["y"]).max()))
            if viol > tol * (1 + 1e-6) + 1e-10 * scale:
                out.append(("certificate_invalid", dict(t=t, alpha=a, stop=float(stops[t]), recomputed=viol), f"<= {tol}"))
    return out, coefs


def run_path(task, ctx):
    from mc import comp as C
    tier = ctx.tier
    sname, skw, dn, pk, storage = path_cases(tier)[task["case"]]
    for xid, X, y in problems(dn, tier):
        dspec = R.datafit_specs(dn, X, tier)[0]
        fi = skw.get("fit_intercept", True)
        pens = R.penalty_specs(pk, dspec, X, y, fi, tier, fracs=(1.0,))
        a0 = pens[0]["alpha"]
        base = [0.5 * a0, 0.2 * a0, 0.05 * a0]
        grids = [list(g) for g in itertools.permutations(base)] + [[a] for a in base] + [[1.2 * a0, 0.5 * a0], [0.2 * a0, 0.2 * a0]]
        T = y.shape[1] if dn == "QuadraticMultiTask" else 0
        inits = [None]
        if sname == "AndersonCD":
            inits += [w for w in R.starts(X.shape[1], fi, "thorough")[:2]]
            if fi:
                z = np.zeros(X.shape[1] + 1)
                z[-1] = 1.5
                inits.append(z)
        else:
            p_ = X.shape[1]
            inits += [np.ones((T, p_ + fi))]
            # rows whose coefficient is zero for the first task only / non-zero for the first task only, and a row-sparse start
            Wa = np.zeros((T, p_ + fi))
            Wa[1:, 0] = 1.5
            Wa[0, p_ - 1] = -1.0
            Wb = np.zeros((T, p_ + fi))
            Wb[:, 1 % p_] = [0.5 * (t + 1) for t in range(T)]
            if fi:
                Wa[:, -1] = 0.5
            inits += [Wa, Wb]
        for grid in grids:
            for w0 in inits:
                params = dict(op="path", solver=sname, kw=skw, datafit=dn, dspec=dspec, storage=storage, X=X.tolist(), y=y.tolist(),
                              penalty=pens[0], grid=grid, w_init=None if w0 is None else np.asarray(w0).tolist(), xid=xid)
                v, coefs = exec_path(params)
                ctx.transitions += len(grid)
                ctx.states += len(grid)
                ctx.count("path_calls")
                ctx.obs(coefs, nontrivial=coefs is not None and bool(np.any(coefs)))
                for kind, got, exp in v:
                    ctx.violation(f"solver:{sname}.path", kind, params, got, exp,
                                  where=dict(solver=sname, with_w_init=w0 is not None, fit_intercept=bool(fi),
                                             zero_support_start=bool(w0 is not None and not np.any(np.asarray(w0)[..., :X.shape[1]]))))
        ctx.sample(dict(op="path", solver=sname, kw=skw, xid=xid, grids=len(grids), inits=len(inits)))


# ---------------------------------------------------------------------------------- (c) estimator refits

EST_SPECS = ["Lasso", "WeightedLasso", "ElasticNet", "MCPRegression", "SparseLogisticRegression", "LinearSVC", "GroupLasso", "SqrtLasso"]


def est_moves(name, p):
    mv = []
    if name == "LinearSVC":
        mv = [dict(C=0.1), dict(C=1.0), dict(C=5.0), dict(tol=1e-6), dict(C=1e-6)]
    elif name == "SqrtLasso":
        mv = [dict(alpha=0.1), dict(alpha=0.4), dict(alpha=0.02), dict(alpha=100.0)]
    else:
        mv = [dict(alpha=0.05), dict(alpha=0.3), dict(alpha=0.01), dict(alpha=1000.0)]   # 1000: above the critical value
        if name == "ElasticNet":
            mv += [dict(l1_ratio=0.9), dict(l1_ratio=0.2)]
        if name in ("WeightedLasso",):
            mv += [dict(weights=[1.0, 0.0, 2.0, 0.5, 1.0][:p]), dict(weights=[2.0, 1.0, 1.0, 0.0, 3.0][:p])]
        if name == "MCPRegression":
            mv += [dict(gamma=10.0)]
        if name == "GroupLasso":
            mv += [dict(weights=[1.0, 3.0, 0.5, 1.0, 2.0][:p])]
        mv += [dict(positive=True)] if name in ("Lasso", "ElasticNet") else []
    return mv


def base_kw(name, p):
    kw = dict(tol=1e-8)
    if name == "SqrtLasso":
        return dict(alpha=0.2, tol=1e-8)
    if name == "LinearSVC":
        return dict(C=1.0, tol=1e-8, warm_start=True)
    kw.update(alpha=0.1, warm_start=True)
    if name == "GroupLasso":
        kw["groups"] = 1
    if name == "WeightedLasso":
        kw["weights"] = [1.0] * p
    return kw


def exec_est_history(params):
    """Replay fit -> (set_params -> fit)* on one fresh estimator; oracle after the last fit.  Returns (violations, obs)."""
    from mc import estim
    name = params["est"]
    X = np.array(params["X"], dtype=float)
    y = np.array(params["y"], dtype=float)
    kw = dict(params["kw"])
    est = estim.make(dict(name=name, kw=kw))
    v = []
    try:
        import warnings
        with warnings.catch_warnings():
            warnings.simplefilter("ignore")
            est.fit(X, y)
            for mv in params["moves"]:
                if "_y" in mv:                       # data move: the same estimator object is refitted on another target
                    y = np.array(params["ys"][mv["_y"]], dtype=float)
                    est.fit(X, y)
                    continue
                mv2 = {k: (np.asarray(val, dtype=float) if k == "weights" else val) for k, val in mv.items()}
                est.set_params(**mv2)
                kw.update(mv)
                est.fit(X, y)
    except Exception as e:
        return [("exception", type(e).__name__ + ": " + str(e)[:120], "refit succeeds")], None
    spec = dict(name=name, kw=kw)
    tol = kw.get("tol", 1e-4)
    (viol, parts), obj, prob, w = estim.violation(spec, X, y, est)
    sc = getattr(est, "stop_crit_", None)
    if not np.all(np.isfinite(w)):
        return [("non_finite", np.asarray(w).tolist(), "finite")], None
    if name == "SqrtLasso":
        converged = True
    else:
        converged = sc is not None and sc <= tol
    scale = 1.0 + float(np.abs(prob["X"]).sum()) * (1.0 + float(np.abs(prob["y"]).max()))
    if converged and name != "SqrtLasso" and viol > tol * (1 + 1e-6) + 1e-10 * scale:
        v.append(("certificate_invalid_for_current_params", dict(stop=float(sc), recomputed=viol, params={k: val for k, val in kw.items() if k != "weights"}), f"<= {tol}"))
    # differential: a fresh estimator with the final parameters (cold start)
    if prob["penalty"]["name"] in RP.CONVEX:
        fresh = estim.make(dict(name=name, kw=dict(kw, **({"warm_start": False} if "warm_start" in kw else {}))))
        fresh.fit(X, y)
        wf = estim.fitted_w(spec, fresh)
        fsc = getattr(fresh, "stop_crit_", None)
        if name == "SqrtLasso":
            Fw, Ff = RC.objective(prob, w), RC.objective(prob, wf)
            if Fw - Ff > 1e-5 * (1 + abs(Ff)):
                v.append(("worse_than_fresh_estimator", Fw - Ff, "<= 1e-5 rel"))
        elif converged and fsc is not None and fsc <= tol:
            ok, gap, bnd = estim.gap_ok(prob, w, wf)
            if not ok:
                v.append(("worse_than_fresh_estimator", gap, f"<= {bnd}"))
    return v, w


def run_estimator(task, ctx):
    tier = ctx.tier
    name = task["est"]
    depth = 2 if tier == "quick" else 3
    for xid, X in (("tall6x3", A.G_TALL), ("wide3x5", A.G_WIDE)):
        p = X.shape[1]
        y = R.targets("clf" if name in ("SparseLogisticRegression", "LinearSVC") else "reg", X, tier)[-1][1]
        moves = est_moves(name, p) + [dict(_y=1), dict(_y=0)]
        if name in ("SparseLogisticRegression", "LinearSVC"):
            ys = [y, -y]                              # the two labels swapped
        else:
            ys = [y, R.targets("reg", X, tier)[0][1] * 2.0 - 1.0]
        kw = base_kw(name, p)
        seen = set()
        for d in range(0, depth + 1):
            for seq in itertools.product(range(len(moves)), repeat=d):
                params = dict(op="estimator", est=name, kw=kw, X=X.tolist(), y=y.tolist(), ys=[t.tolist() for t in ys], moves=[moves[i] for i in seq], xid=xid)
                v, w = exec_est_history(params)
                ctx.transitions += 1
                ctx.count("estimator_histories")
                if w is not None:
                    key = (np.asarray(w).tobytes(), str(sorted((k, str(val)) for k, val in {**kw, **{k: val for m in params["moves"] for k, val in m.items()}}.items())))      # (_y = current target)
                    seen.add(key)
                ctx.obs(w, nontrivial=w is not None and bool(np.any(w)))
                for kind, got, exp in v:
                    ctx.violation(f"estimator:{name}.warm_start", kind, params, got, exp, where=dict(estimator=name))
        ctx.states += len(seen)
    ctx.sample(dict(op="estimator", est=name, moves=est_moves(name, 3), depth=depth))


def exec_sqrt_path(params):
    """SqrtLasso.path on one grid (any order): every returned (alpha_i, coef_i) pair must be stationary for the documented objective
    ||y - Xw||_2 + alpha_i ||w||_1 at *that* alpha; the returned alphas are the requested ones."""
    import warnings
    from skglm.experimental.sqrt_lasso import SqrtLasso
    X = np.array(params["X"], dtype=float)
    y = np.array(params["y"], dtype=float)
    grid = list(params["grid"])
    out = []
    with warnings.catch_warnings(record=True) as caught:
        warnings.simplefilter("always")
        try:
            alphas, coefs = SqrtLasso(tol=1e-10).path(X, y, alphas=np.array(grid))
        except Exception as e:
            return [("exception", type(e).__name__ + ": " + str(e)[:120], "path succeeds")], None
    small = any("Small residuals" in str(c.message) for c in caught)
    if sorted(np.asarray(alphas).tolist()) != sorted(grid):
        out.append(("returned_alphas_differ_from_grid", np.asarray(alphas).tolist(), grid))
    if np.asarray(coefs).shape != (len(grid), X.shape[1]):
        return out + [("path_shape", list(np.asarray(coefs).shape), [len(grid), X.shape[1]])], None
    n = X.shape[0]
    for a, w in zip(alphas, coefs):
        r = y - X @ w
        if small or np.linalg.norm(r) <= 1e-6 * (1 + np.linalg.norm(y)):
            continue                              # documented non-convergence at (near-)zero residual
        prob = dict(datafit=dict(name="SqrtQuadratic"), penalty=dict(name="L1", alpha=float(a), positive=False), X=X, y=y, fit_intercept=False)
        viol = RC.violation(prob, w, "subdiff", "pn")[0]
        if viol > 1e-6:
            out.append(("certificate_invalid", dict(alpha=float(a), recomputed=viol, coef=np.asarray(w).tolist()), "<= 1e-6"))
    return out, np.asarray(coefs)


def run_sqrt_path(ctx):
    for xid, X in (("tall6x3", A.G_TALL), ("sq4x4", A.G_SQ), ("dup", A.K()["dup"])):
        for tname, y in R.targets("reg", X, ctx.tier):
            amax = float(np.max(np.abs(X.T @ y)) / np.linalg.norm(y))      # critical value of ||y - Xw||_2 + alpha ||w||_1
            base = [0.5 * amax, 0.2 * amax, 0.05 * amax]
            grids = [list(g) for g in itertools.permutations(base)] + [[a] for a in base] + [[1.2 * amax, 0.5 * amax], [0.5 * amax, 1.2 * amax, 0.1 * amax],
                                                                                                 [0.2 * amax, 0.2 * amax]]
            if ctx.tier != "quick":
                b4 = base + [0.9 * amax]
                grids += [list(g) for g in itertools.permutations(b4)]
            for grid in grids:
                params = dict(op="sqrt_path", X=X.tolist(), y=y.tolist(), grid=grid, xid=xid)
                v, coefs = exec_sqrt_path(params)
                ctx.transitions += len(grid)
                ctx.states += len(grid)
                ctx.count("path_calls")
                ctx.obs(coefs, nontrivial=coefs is not None and bool(np.any(coefs)))
                for kind, got, exp in v:
                    ctx.violation("estimator:SqrtLasso.path", kind, params, got, exp, where=dict(estimator="SqrtLasso"))
    ctx.sample(dict(op="sqrt_path", grids="all orders of a 3-value grid, singletons, above-critical first / in the middle, repeated value"))


# ---------------------------------------------------------------------------------- (d) estimator.path(): constructor arguments reach the path

EST_PATH = ["Lasso", "WeightedLasso", "ElasticNet", "MCPRegression", "MultiTaskLasso"]


def est_path_kws(name, p):
    W = [None, [1.0, 0.0, 2.0, 0.5, 3.0][:p]]
    out = []
    for fi in (True, False):
        if name == "Lasso":
            out += [dict(fit_intercept=fi, positive=pos) for pos in (False, True)]
        elif name == "WeightedLasso":
            out += [dict(fit_intercept=fi, positive=pos, weights=w) for pos in (False, True) for w in W]
        elif name == "ElasticNet":
            out += [dict(fit_intercept=fi, positive=pos, l1_ratio=r) for pos in (False, True) for r in (1.0, 0.5)]
        elif name == "MCPRegression":
            out += [dict(fit_intercept=fi, positive=pos, weights=w, gamma=3.0) for pos in (False, True) for w in W]
        else:
            out += [dict(fit_intercept=fi)]
    return out


def exec_est_path(params):
    """estimator.path(X, y, alphas[, coef_init]): every (alpha_t, coef_t) must meet the certificate of the *documented* problem of the
    estimator at alpha_t with its constructor arguments (positive, weights, l1_ratio, gamma, fit_intercept); feasibility always."""
    import warnings
    from mc import estim
    name = params["est"]
    X = np.asfortranarray(np.array(params["X"], dtype=float))
    y = np.array(params["y"], dtype=float)
    y = np.asfortranarray(y) if y.ndim == 2 else y
    kw = dict(params["kw"])
    grid = list(params["grid"])
    tol = 1e-8
    est = estim.make(dict(name=name, kw=dict(kw, alpha=grid[0], tol=tol, max_iter=100, max_epochs=5000)))
    ci = None if params.get("coef_init") is None else np.array(params["coef_init"], dtype=float)
    out = []
    try:
        with warnings.catch_warnings():
            warnings.simplefilter("ignore")
            res = est.path(X, y, np.array(grid), coef_init=ci, return_n_iter=True)
    except Exception as e:
        return [("exception", type(e).__name__ + ": " + str(e)[:120], "path succeeds")], None
    alphas, coefs, stops = res[0], res[1], res[2]
    mt = name == "MultiTaskLasso"
    if list(np.asarray(alphas, dtype=float)) != grid:
        out.append(("returned_alphas_differ_from_grid", np.asarray(alphas).tolist(), grid))
    for t, a in enumerate(grid):
        w = coefs[:, :, t].T if mt else coefs[:, t]
        if not np.all(np.isfinite(w)):
            out.append(("non_finite", np.asarray(w).tolist(), "finite"))
            continue
        spec = dict(name=name, kw=dict(kw, alpha=a))
        prob = estim.documented_problem(spec, X, y)
        pcoef = w[:X.shape[1]]
        if kw.get("positive") and np.any(pcoef < 0):
            out.append(("negative_coefficient", dict(alpha=a, coef=np.asarray(pcoef).tolist()), ">= 0"))
        if stops[t] <= tol:
            viol = RC.violation(prob, w, "subdiff", "cd")[0]
            scale = 1.0 + float(np.abs(X).sum()) * (1.0 + float(np.abs(y).max()))
            if viol > tol * (1 + 1e-6) + 1e-10 * scale:
                out.append(("certificate_invalid_for_documented_problem", dict(alpha=a, stop=float(stops[t]), recomputed=viol), f"<= {tol}"))
    return out, np.asarray(coefs)


def run_est_path(task, ctx):
    name = task["est"]
    for xid, X in (("tall6x3", A.G_TALL), ("wide3x5", A.G_WIDE), ("hadamard", A.O()["hadamard4x3"])):
        p = X.shape[1]
        ts = R.targets("multi" if name == "MultiTaskLasso" else "reg", X, ctx.tier)
        for tname, y in ts + ([("neg", -ts[0][1])] if name != "MultiTaskLasso" else []):
            g0 = X.T @ (y - y.mean(axis=0))
            a0 = float(np.max(np.linalg.norm(g0, axis=1) if g0.ndim == 2 else np.abs(g0))) / X.shape[0]
            a0 = a0 if a0 > 1e-8 else 1.0
            base = [0.5 * a0, 0.2 * a0, 0.05 * a0]
            grids = [base, base[::-1], [base[1]], [1.5 * a0, base[2]]]
            for kw in est_path_kws(name, p):
                fi = kw["fit_intercept"]
                T = y.shape[1] if y.ndim == 2 else 0
                inits = [None]
                c0 = np.array([0.5, -1.0, 0.25, 2.0, -0.5][:p] + ([0.75] if fi else []))
                inits.append(np.column_stack([c0 * (t + 1) for t in range(T)]).T if T else c0)
                for grid in grids:
                    for ci in inits:
                        params = dict(op="est_path", est=name, kw=kw, X=X.tolist(), y=y.tolist(), grid=grid, xid=xid,
                                      coef_init=None if ci is None else np.asarray(ci).tolist())
                        v, coefs = exec_est_path(params)
                        ctx.transitions += len(grid)
                        ctx.states += len(grid)
                        ctx.count("path_calls")
                        ctx.obs(coefs, nontrivial=coefs is not None and bool(np.any(coefs)))
                        for kind, got, exp in v:
                            ctx.violation(f"estimator:{name}.path", kind, params, got, exp,
                                          where=dict(estimator=name, positive=bool(kw.get("positive")), weighted=kw.get("weights") is not None,
                                                     with_coef_init=ci is not None, fit_intercept=fi))
    ctx.sample(dict(op="est_path", est=name, kws=len(est_path_kws(name, 3))))


# ---------------------------------------------------------------------------------- (e) buffers under moving working sets

def exec_buffer_node(comp):
    """One solve from user-supplied (w, Xw) buffers: on return the buffer equals X w; a convergence claim meets the certificate."""
    from mc import comp as C
    r = C.execute(comp)
    out = []
    if r["status"] != "ok":
        return [("exception", r["exc"]["type"] + ": " + r["exc"]["message"][:80], "solve succeeds")], None
    prob = C.problem_of(comp)
    w = r["w"]
    u = RC.linear_predictor(prob, w)
    err = float(np.max(np.abs(u - r["Xw_buf"])))
    if err > 1e-9 * (1 + float(np.max(np.abs(u)))):
        out.append(("fit_buffer_inconsistent", err, "== X w"))
    tol = C.tol_of(comp["solver"])
    if r["stop_crit"] <= tol:
        viol = C.certificate(comp, w)[0]
        scale = 1.0 + float(np.abs(prob["X"]).sum()) * (1.0 + float(np.abs(prob["y"]).max()))
        if viol > tol * (1 + 1e-6) + 1e-10 * scale:
            out.append(("certificate_invalid", dict(stop=r["stop_crit"], recomputed=viol), f"<= {tol}"))
    return out, w


def run_acc_buffers(task, ctx):
    from mc.drivers import c03
    sn = task["solver"]
    if sn == "AndersonCD-default":
        comps = c03.ar_family_comps(task["part"], ctx.tier)
    else:
        comps = (dict(c, solver=dict(c["solver"], kw=dict(c["solver"]["kw"], max_iter=k)))
                 for c in c03.acc_family_comps(dict(solver=sn, part=task["part"]), ctx.tier) for k in (2, 3, 4, 5, 7))
    def with_variants(cs):
        for c in cs:
            yield c
            if sn != "AndersonCD-default" and c["solver"]["kw"].get("max_iter") in (3, 7):
                # the same node on CSC storage with an (uncentred) intercept: the sparse branches keep the intercept apart
                w0 = np.array(c["w_init"], dtype=float)
                w0i = np.vstack([w0, np.zeros((1, w0.shape[1]))]) if w0.ndim == 2 else np.append(w0, 0.0)
                y = np.array(c["y"], dtype=float) + 3.0
                yield dict(c, storage="csc", y=y.tolist(), w_init=w0i.tolist(),
                           solver=dict(c["solver"], kw=dict(c["solver"]["kw"], fit_intercept=True)), xid=c["xid"] + "+csc+icpt")
    n = 0
    for comp in with_variants(comps):
        v, w = exec_buffer_node(comp)
        n += 1
        ctx.states += 1
        ctx.transitions += 1
        ctx.count("buffer_nodes")
        ctx.obs(w, nontrivial=w is not None and bool(np.any(w)))
        for kind, got, exp in v:
            ctx.violation(f"solver:{sn.split('-')[0]}.buffers", kind, dict(op="buffer_node", comp=comp), got, exp,
                          where=dict(solver=sn.split("-")[0], family="correlated"))
    ctx.sample(dict(op="acc_buffers", solver=sn, nodes=n))


def run(task, ctx):
    if task["op"] == "acc_buffers":
        return run_acc_buffers(task, ctx)
    if task["op"] == "est_path":
        return run_est_path(task, ctx)
    if task["op"] == "sqrt_path":
        return run_sqrt_path(ctx)
    if task["op"] == "solve_hist":
        return run_solve_hist(task, ctx)
    if task["op"] == "path":
        return run_path(task, ctx)
    return run_estimator(task, ctx)


def replay(params):
    from mc import comp as C
    from mc.core import fhex
    if params["op"] == "buffer_node":
        v, w = exec_buffer_node(params["comp"])
        return dict(violated=bool(v), kinds=[x[0] for x in v], detail=fhex([[x[0], x[1], x[2]] for x in v[:6]]), w=fhex(w))
    if params["op"] == "est_path":
        v, coefs = exec_est_path(params)
        return dict(violated=bool(v), kinds=[x[0] for x in v], detail=fhex([[x[0], x[1], x[2]] for x in v[:6]]), coefs=fhex(coefs))
    if params["op"] == "sqrt_path":
        v, coefs = exec_sqrt_path(params)
        return dict(violated=bool(v), kinds=[x[0] for x in v], detail=fhex([[x[0], x[1], x[2]] for x in v[:6]]), coefs=fhex(coefs))
    if params["op"] == "path":
        v, coefs = exec_path(params)
        return dict(violated=bool(v), kinds=[x[0] for x in v], detail=fhex([[x[0], x[1], x[2]] for x in v[:6]]), coefs=fhex(coefs))
    if params["op"] == "estimator":
        v, w = exec_est_history(params)
        return dict(violated=bool(v), kinds=[x[0] for x in v], detail=fhex([[x[0], x[1], x[2]] for x in v[:6]]), w=fhex(w))
    sspec, dn, pk, storage = solver_cases("quick")[params["case"]]
    xid = params["xid"]
    X, y = next((X, y) for (i, X, y) in problems(dn, "thorough") if i == xid)
    dspec = R.datafit_specs(dn, X, "quick")[0]
    fi = C.fit_intercept_of(sspec)
    p0spec = R.penalty_specs(pk, dspec, X, y, fi, "quick", fracs=(1.0,))[0]
    dsp = {k: v for k, v in dspec.items() if k != "layout"} if dspec else None
    hist = params["history"]
    lv = Live(sspec, dsp, dict(p0spec, alpha=hist[0]), X, y, storage, params["start"])
    cold = None
    try:
        lc = Live(sspec, dsp, dict(p0spec, alpha=hist[-1]), X, y, storage)
        o = lc.solve(hist[-1])
        cold = np.array(o[0]) if o[2] <= C.tol_of(sspec) else None
    except Exception:
        pass
    try:
        for b in hist[:-1]:
            lv.solve(b)
        out = lv.solve(hist[-1])
    except Exception as e:
        return dict(violated=True, kinds=["exception"], exc=type(e).__name__)
    v = check_after(lv, hist[-1], out, cold)
    return dict(violated=bool(v), kinds=[x[0] for x in v], detail=fhex([[x[0], x[1], x[2]] for x in v[:6]]), w=fhex(out[0]), stop=fhex(out[2]))


def describe(tier, agg):
    rule = ("engine H: (a) BFS over sequences of solve(alpha_i), alpha_i in a 4-value grid (incl. one above the critical value), in any order "
            "with repetition, depth 3 (4 thorough), on persistent (w, Xw) buffers and one compiled penalty, from a cold start and from "
            "warm starts (supports larger/smaller than the working set, zero support with non-zero intercept), for 15 solver "
            "configurations x 3 designs; states deduplicated by (w, Xw, alpha) bytes; (b) path() for every permutation of a 3-value "
            "grid, singletons, a grid starting above the critical value and a repeated value, with and without w_init (multitask: dense, "
            "first-task-only-zero rows and row-sparse starts), SqrtLasso.path on the same grids, and estimator.path() of Lasso / "
            "WeightedLasso / ElasticNet / MCPRegression / MultiTaskLasso over their constructor arguments (positive, weights, l1_ratio, "
            "intercept) x grids x coef_init judged against the documented problem at each alpha; the extrapolating solvers on C03's "
            "correlated families (5x6 / 8x12, p0 in {1,2,3}) and AndersonCD at default tolerance on AR(0.95 / 0.99) 10x30 / 20x40 designs: "
            "model-fit buffer == X w on return and certificate on every convergence claim; (c) estimator "
            "histories fit -> (set_params -> fit)^d, d <= 2 (3), warm_start=True, over all parameter moves; oracles: certificate of "
            "the current problem, Xw buffer consistency, optimality-gap theorem against the cold start / a fresh estimator")
    return rule, {"converged_ops": 500, "path_calls": 100, "estimator_histories": 100}
