"""Worker-side execution of one composition  solver x datafit x penalty x data x knobs  on the real code."""
import warnings

import numpy as np
import scipy.sparse as sp

from mc import build
from mc.core import derive_seed, fhex
from mc.ref import cert as RC

NO_INTERCEPT = ("GramCD", "FISTA", "LBFGS", "PDCD_WS")
PN_KIND = ("ProxNewton", "GroupProxNewton")
INNER = {"AndersonCD": "max_epochs", "GroupBCD": "max_epochs", "MultiTaskBCD": "max_epochs", "PDCD_WS": "max_epochs",
         "ProxNewton": "max_pn_iter", "GroupProxNewton": "max_pn_iter"}
DEFAULT_INTERCEPT = {"AndersonCD": True, "ProxNewton": True, "GroupBCD": False, "GroupProxNewton": False,
                     "MultiTaskBCD": True, "GramCD": False, "FISTA": False, "LBFGS": False, "PDCD_WS": False}
DEFAULT_TOL = {"MultiTaskBCD": 1e-6, "PDCD_WS": 1e-6}


def fit_intercept_of(sspec):
    name = sspec["name"]
    if name in NO_INTERCEPT:
        return False
    return bool(sspec.get("kw", {}).get("fit_intercept", DEFAULT_INTERCEPT[name]))


def strategy_of(sspec):
    kw = sspec.get("kw", {})
    return kw.get("ws_strategy", kw.get("opt_strategy", "subdiff"))


def tol_of(sspec):
    return sspec.get("kw", {}).get("tol", DEFAULT_TOL.get(sspec["name"], 1e-4))


def problem_of(comp):
    """Reference-side description (dense X, the matrix the solver really sees)."""
    X = np.asarray(comp["X"], dtype=float)
    y = np.asarray(comp["y"], dtype=float)
    d = comp.get("datafit")
    if d is not None and d["name"] == "QuadraticSVC":
        X = (X * y[:, None]).T                      # (n_features, n_samples): what LinearSVC.fit builds
    return dict(datafit=d, penalty=comp["penalty"], X=X, y=y, fit_intercept=fit_intercept_of(comp["solver"]))


def execute(comp, keep=False):
    """Run solver.solve on the real code.  Returns a dict with status / outputs / user buffers."""
    prob = problem_of(comp)
    Xd, y = prob["X"], prob["y"]
    y = np.asfortranarray(y) if y.ndim == 2 else y.copy()
    X = build.storage(Xd, comp.get("storage", "denseF"))
    sspec = comp["solver"]
    res = dict(status="ok", exc=None)
    try:
        with warnings.catch_warnings():
            warnings.simplefilter("ignore")
            solver = build.solver(sspec)
            datafit = build.datafit(comp.get("datafit"))
            penalty = build.penalty(comp["penalty"])
            if comp.get("initialize", True) and datafit is not None:
                if sp.issparse(X) and hasattr(datafit, "initialize_sparse"):
                    datafit.initialize_sparse(X.data, X.indptr, X.indices, y)
                elif hasattr(datafit, "initialize"):
                    datafit.initialize(Xd if sp.issparse(X) else X, y)
            w0 = Xw0 = None
            if comp.get("w_init") is not None:
                w0 = np.array(comp["w_init"], dtype=float)
                if w0.ndim == 2:
                    w0 = np.ascontiguousarray(w0)
                if comp.get("Xw_init", "consistent") == "consistent":
                    Xw0 = RC.linear_predictor(prob, w0) if len(w0) == Xd.shape[1] + prob["fit_intercept"] else None
                    if Xw0 is not None and Xw0.ndim == 2:
                        Xw0 = np.asfortranarray(Xw0)
            # RNG (power method) seed: a function of the data and components only, NOT of budgets/knobs, so that
            # runs with different budgets are prefixes of one trajectory
            build.seed_numba(derive_seed("solve", sspec["name"], comp.get("datafit"), comp.get("storage"), comp["X"]))
            out = solver.solve(X, y, datafit, penalty, w0, Xw0)
        w, obj, sc = out
        res.update(w=np.array(w, dtype=float), obj_out=np.atleast_1d(np.array(obj, dtype=float)), stop_crit=float(sc),
                   w_buf=None if w0 is None else np.array(w0), Xw_buf=None if Xw0 is None else np.array(Xw0))
        if keep:
            res["_objs"] = (solver, datafit, penalty, X, y)
    except BaseException as e:                                    # noqa: B036 - numba raises SystemError & co
        if isinstance(e, (KeyboardInterrupt, SystemExit, MemoryError)):
            raise
        fr = e.__traceback__
        while fr.tb_next is not None:
            fr = fr.tb_next
        import re
        msg = re.sub(r"(0x|#)[0-9a-fA-F]{5,}", "#ADDR", str(e))      # jitclass type names embed object addresses
        res.update(status="exc", exc=dict(type=type(e).__name__, module=type(e).__module__, message=msg[:300],
                                          frame=f"{fr.tb_frame.f_code.co_filename.split('/')[-1]}:{fr.tb_frame.f_code.co_name}"))
    return res


def certificate(comp, w):
    """Reference violation of the strategy the solver was asked to use."""
    prob = problem_of(comp)
    name = comp["solver"]["name"]
    strat = strategy_of(comp["solver"])
    if comp["penalty"]["name"] == "L2":
        strat = "subdiff"
    kind = "pn" if name in PN_KIND else "cd"
    return RC.violation(prob, w, strat, kind)


def objective(comp, w):
    return RC.objective(problem_of(comp), w)


def pack(res):
    """JSON-able bit-exact form of an execution result (for replay determinism)."""
    out = dict(status=res["status"], exc=res["exc"])
    for k in ("w", "obj_out", "stop_crit", "w_buf", "Xw_buf"):
        if k in res and res[k] is not None:
            out[k] = fhex(res[k])
    return out
